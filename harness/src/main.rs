mod asm;
mod authgate;
mod frames;
mod satloc;
mod cfggate;
mod crash;
mod gas;
mod http;
mod inst;
mod locks;
mod methods;
mod names;
mod replicas;
mod surface;
mod table;
mod player;
mod vk;

use serde_json::json;

fn smoke() -> i32 {
    let dir = tempfile::TempDir::new().unwrap();
    brc20_prog::verif::set_config(inst::config("regtest", true, dir.path()));
    let rt = inst::runtime();
    let mut i = inst::Instance::open(rt, dir.path()).unwrap();
    println!("methods: {:?}", i.method_names());
    let h = |n: u8| format!("0x{}", hex::encode([[0xaau8; 1].as_slice(), &[0u8; 30], &[n]].concat()));
    println!("init: {:?}", i.call("brc20_initialise", json!([h(0), 1, 0])));
    let code = format!("0x{}", hex::encode(asm::initcode(&asm::cell_runtime())));
    let pk = "5120aabbccddeeff00112233445566778899aabbccddeeff00112233445566778899";
    let r = i.call("brc20_deploy", json!({"from_pkscript": pk, "data": code, "timestamp": 5, "hash": h(1), "tx_idx": 0, "inscription_id": "i1", "inscription_byte_len": 100000, "op_return_tx_id": h(9)}));
    println!("deploy: {}", serde_json::to_string(&r.ok()).unwrap());
    let addr = r.ok().unwrap()["contractAddress"].clone();
    let ops = json!([{"op":"sstore","s":5,"v":7},{"op":"log","t":[1,2]},{"op":"create"},{"op":"sub","ops":[{"op":"sstore","s":6,"v":1},{"op":"revert"}]}]);
    let data = format!("0x{}", hex::encode(asm::encode_ops(&ops)));
    let r = i.call("brc20_call", json!({"from_pkscript": pk, "contract_address": addr, "data": data, "timestamp": 5, "hash": h(1), "tx_idx": 1, "inscription_id": "i2", "inscription_byte_len": 100000, "op_return_tx_id": h(9)}));
    println!("call: {}", serde_json::to_string(&r.ok()).unwrap());
    let txh = r.ok().unwrap()["transactionHash"].clone();
    println!("fin: {:?}", i.call("brc20_finaliseBlock", json!([5, h(1), 2])));
    println!("block: {}", serde_json::to_string(&i.call("eth_getBlockByNumber", json!(["1", true])).ok()).unwrap());
    println!("tx: {}", serde_json::to_string(&i.call("eth_getTransactionByHash", json!([txh])).ok()).unwrap());
    println!("trace: {}", serde_json::to_string(&i.call("debug_traceTransaction", json!([txh])).ok()).unwrap());
    println!("logs: {}", serde_json::to_string(&i.call("eth_getLogs", json!([{"fromBlock":"1","toBlock":"1"}])).ok()).unwrap());
    println!("pool: {}", serde_json::to_string(&i.call("txpool_content", json!([])).ok()).unwrap());
    println!("code: {:?}", i.call("eth_getCode", json!([addr])).ok().map(|c| c.to_string().len()));
    println!("slot5: {:?}", i.call("eth_getStorageAt", json!([addr, "0x5"])));
    println!("slot6: {:?}", i.call("eth_getStorageAt", json!([addr, "0x6"])));
    println!("nonce c: {:?}", i.call("eth_getTransactionCount", json!([addr, "latest"])));
    println!("rawhdr: {:?}", i.call("debug_getRawHeader", json!(["1"])));
    println!("rawrc: {:?}", i.call("debug_getRawReceipts", json!(["1"])));
    println!("tracestr: {:?}", i.call("debug_getBlockTraceString", json!(["1"])));
    println!("insc: {:?}", i.call("brc20_getInscriptionIdByContractAddress", json!([addr])));
    println!("bal: {:?}", i.call("brc20_balance", json!([pk, "ordi"])));
    i.close();
    0
}

/// TLC's Json module rejects null: use the sentinel "NULL"
pub fn denull(v: &mut serde_json::Value) {
    match v {
        serde_json::Value::Null => *v = json!("NULL"),
        serde_json::Value::Array(a) => a.iter_mut().for_each(denull),
        serde_json::Value::Object(o) => o.values_mut().for_each(denull),
        _ => {}
    }
}

fn copy_dir(from: &std::path::Path, to: &std::path::Path) -> std::io::Result<()> {
    std::fs::create_dir_all(to)?;
    for e in std::fs::read_dir(from)? {
        let e = e?;
        let dst = to.join(e.file_name());
        if e.file_type()?.is_dir() {
            copy_dir(&e.path(), &dst)?;
        } else if e.file_name() != "LOCK" {
            std::fs::copy(e.path(), &dst)?;
        }
    }
    Ok(())
}

/// vh play <schedules.ndjson> <trace.ndjson> [net] [traces on|off]
fn play(args: &[String]) -> i32 {
    use std::io::{BufRead, Write};
    let net = args.get(2).map(|s| s.as_str()).unwrap_or("regtest");
    let traces = args.get(3).map(|s| s != "off").unwrap_or(true);
    let f = std::fs::File::open(&args[0]).expect("schedules");
    let mut out = std::io::BufWriter::new(std::fs::File::create(&args[1]).expect("trace file"));
    let rt = inst::runtime();
    let mut runs = 0u64;
    let mut events = 0u64;
    let mut calls = 0u64;
    let mut template: Option<(u64, tempfile::TempDir)> = None;
    for line in std::io::BufReader::new(f).lines() {
        let line = line.unwrap();
        if line.trim().is_empty() {
            continue;
        }
        let sched: serde_json::Value = serde_json::from_str(&line).expect("schedule json");
        let dir = tempfile::TempDir::new().unwrap();
        // a fork-crossing configuration starts from `base` mined and committed empty blocks (Brc20Ref.Base): they are
        // produced once per process in a template directory (the real brc20_mine + brc20_commitToDatabase), which is
        // closed and copied for every run
        let base = sched["base"].as_u64().unwrap_or(0);
        if base > 0 {
            if template.as_ref().map(|(b, _)| *b) != Some(base) {
                let tdir = tempfile::TempDir::new().unwrap();
                let mut tp = match player::Player::new(rt.clone(), tdir.path(), net, traces) {
                    Ok(p) => p,
                    Err(e) => {
                        eprintln!("cannot open template instance: {}", e);
                        return 2;
                    }
                };
                tp.inst.timeout = std::time::Duration::from_secs(900);
                let a = tp.inst.call("brc20_mine", json!([base, 5]));
                let b = tp.inst.call("brc20_commitToDatabase", json!([]));
                tp.inst.close();
                if !a.is_ok() || !b.is_ok() {
                    eprintln!("prelude failed: {} / {}", a.err_text(), b.err_text());
                    return 2;
                }
                template = Some((base, tdir));
            }
            if let Err(e) = copy_dir(template.as_ref().unwrap().1.path(), dir.path()) {
                eprintln!("cannot copy the template directory: {}", e);
                return 2;
            }
        }
        let mut p = match player::Player::new(rt.clone(), dir.path(), net, traces) {
            Ok(p) => p,
            Err(e) => {
                eprintln!("cannot open instance: {}", e);
                return 2;
            }
        };
        p.light_obs = sched["light"].as_bool().unwrap_or(false) || base > 0;
        runs += 1;
        writeln!(out, "{}", json!({"ev": "Reset", "run": sched["run"], "res": "ok", "traces": traces, "net": net, "base": base})).unwrap();
        for step in sched["steps"].as_array().cloned().unwrap_or_default() {
            let mut ev = p.step(&step);
            denull(&mut ev);
            events += 1;
            writeln!(out, "{}", ev).unwrap();
            // a call that hung or panicked is rejected by the trace specification at this event; the instance behind it is
            // wedged, so the rest of the run would only collect watchdog time-outs
            if ev["res"] == json!("timeout") || ev["res"] == json!("panic") {
                break;
            }
        }
        calls += p.inst.calls;
        p.inst.close();
    }
    out.flush().unwrap();
    println!("{}", json!({"runs": runs, "events": events, "rpc_calls": calls}));
    0
}

fn main() {
    let args: Vec<String> = std::env::args().collect();
    if args.len() < 2 {
        eprintln!("usage: vh <command> ...");
        std::process::exit(2);
    }
    if args[1] != "smoke" {
        std::panic::set_hook(Box::new(|_| {}));
    }
    let code = match args[1].as_str() {
        "vk-edges" => vk::run(&args[2], args[3].parse().unwrap(), &args[4]),
        "smoke" => smoke(),
        "play" => play(&args[2..]),
        "crash" => crash::run(&args[2], &args[3], args.get(4).and_then(|x| x.parse().ok()).unwrap_or(400), args.get(5).and_then(|x| x.parse().ok()).unwrap_or(0)),
        "crash-child" => crash::child(&args[2], &args[3], args[4].parse().unwrap(), args[5].parse().unwrap()),
        "table" => table::run(&args[2], &args[3]),
        "schema" => surface::print_schema(),
        "surface" => surface::run(&args[2], &args[3], args[4].parse().unwrap_or(1), args[5].parse().unwrap_or(100), args.get(6).and_then(|x| x.parse().ok()).unwrap_or(0)),
        "replicas" => replicas::run(&args[2], &args[3]),
        "golden" => replicas::golden(&args[2], &args[3]),
        "replica-child" => replicas::child(&args[2]),
        "gas" => gas::run(&args[2], args[3].parse().unwrap_or(1), args[4].parse().unwrap_or(20)),
        "cfggate" => cfggate::run(&args[2], &args[3]),
        "satloc" => satloc::run(&args[2], &args[3]),
        "frames" => frames::run(&args[2], &args[3]),
        "auth" => authgate::run(&args[2], &args[3], args.get(4).map(|x| x == "on")),
        "methods" => {
            let dir = tempfile::TempDir::new().unwrap();
            brc20_prog::verif::set_config(inst::config("regtest", true, dir.path()));
            let mut i = inst::Instance::open(inst::runtime(), dir.path()).unwrap();
            println!("{}", serde_json::to_string(&i.method_names()).unwrap());
            i.close();
            0
        }
        "locks" => locks::record(&args[2], args.get(3).map(|s| s.as_str())),
        other => {
            eprintln!("unknown command {}", other);
            2
        }
    };
    std::process::exit(code);
}
