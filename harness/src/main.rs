mod vk;

fn main() {
    std::panic::set_hook(Box::new(|_| {}));
    let args: Vec<String> = std::env::args().collect();
    if args.len() < 2 {
        eprintln!("usage: vh <command> ...");
        std::process::exit(2);
    }
    let code = match args[1].as_str() {
        "vk-edges" => vk::run(&args[2], args[3].parse().unwrap(), &args[4]),
        other => {
            eprintln!("unknown command {}", other);
            2
        }
    };
    std::process::exit(code);
}
