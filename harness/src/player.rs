//! Executes abstract schedules on a real instance and records one trace event per call, each with
//! the projection `obs` of the instance taken through the public RPC surface (DESIGN 4.2, 4.3).

use std::collections::{BTreeMap, BTreeSet};
use std::path::Path;
use std::sync::Arc;

use alloy::primitives::{keccak256, Address, Bloom, Bytes, B256, U256};
use alloy_sol_types::SolCall;
use serde_json::{json, Value};
use tokio::runtime::Runtime;

use crate::asm;
use crate::inst::{Instance, Outcome};
use crate::names::{self, Names};

mod ctrl_abi {
    alloy_sol_types::sol! {
        function transfer(bytes ticker, address to, uint256 value) returns (bool);
        function approve(bytes ticker, address spender, uint256 value) returns (bool);
        function transferFrom(bytes ticker, address from, address to, uint256 value) returns (bool);
        function mint(bytes ticker, address to, uint256 value) returns (bool);
        function burn(bytes ticker, address from, uint256 value) returns (bool);
        function getTickerAddress(bytes ticker) returns (address);
    }
}
mod tok_abi {
    alloy_sol_types::sol! {
        function transfer(address to, uint256 value) returns (bool);
        function approve(address spender, uint256 value) returns (bool);
        function transferFrom(address from, address to, uint256 value) returns (bool);
        function mint(address to, uint256 value) returns (bool);
        function burn(address from, uint256 value) returns (bool);
        function totalSupply() returns (uint256);
        function balanceOf(address a) returns (uint256);
    }
}

pub struct Player {
    pub inst: Instance,
    pub names: Names,
    pub traces_on: bool,
    pub net: String,
    pub chain_id: u64,
    // universes (everything the run has ever produced, orphaned ids included)
    pub u_tx: BTreeSet<String>,
    pub u_hash: BTreeSet<String>,
    pub u_insc: BTreeSet<String>,
    pub u_addr: BTreeSet<String>,
    pub u_cell_addr: BTreeSet<String>,
    pub u_slots: BTreeSet<u64>,
    pub u_idx: BTreeSet<(u64, u64)>,
    pub u_bal: BTreeSet<(String, String, String)>, // (canonical ticker, spelling, holder)
    pub max_h: u64,
    pub cell_rt: Vec<u8>,
    pub probe_rt: Vec<u8>,
    pub mid_block: bool,
    pub last_ledger: Value,
    pub light_obs: bool,
    pub skip_obs: bool,
    /// first answer seen for (kind, object, position): a finalised or pending object never changes while it stays where it is
    pub memo: BTreeMap<String, String>,
    /// mainnet below 929 000: signing hash -> first signer that used it; `sigdup` once two signers shared one
    pub sig_seen: BTreeMap<B256, String>,
    pub sigdup: bool,
    pub cell_order: Vec<String>,
    pub u_probe_addr: BTreeSet<String>,
    pub digest_on: bool,
    pub digest_mutating_only: bool,
    pub keep_raw: bool,
    pub digest: String,
    pub raw: Vec<String>,
}

/// canonical text of an answer: object keys sorted (serde_json maps are ordered), the self-reported block
/// processing time zeroed - the only field allowed to differ between replicas
pub fn normalise(v: &Value) -> String {
    fn strip(v: &mut Value) {
        match v {
            Value::Object(o) => {
                if o.contains_key("mineTimestamp") {
                    o.insert("mineTimestamp".into(), json!("0x0"));
                }
                o.values_mut().for_each(strip);
            }
            Value::Array(a) => a.iter_mut().for_each(strip),
            _ => {}
        }
    }
    let mut c = v.clone();
    strip(&mut c);
    c.to_string()
}

fn hexs(b: &[u8]) -> String {
    format!("0x{}", hex::encode(b))
}

fn u64_of(v: &Value) -> Option<u64> {
    let s = v.as_str()?;
    u64::from_str_radix(s.trim_start_matches("0x"), 16).ok()
}

fn b256_of(v: &Value) -> Option<B256> {
    v.as_str()?.parse().ok()
}

fn strip_mine_ts(v: &Value) -> Value {
    let mut v = v.clone();
    if let Some(o) = v.as_object_mut() {
        o.remove("mineTimestamp");
    }
    v
}

impl Player {
    pub fn new(rt: Arc<Runtime>, dir: &Path, net: &str, traces_on: bool) -> Result<Self, String> {
        brc20_prog::verif::set_config(crate::inst::config(net, traces_on, dir));
        let inst = Instance::open(rt, dir)?;
        let chain_id = if net == "bitcoin" || net == "mainnet" { 0x4252433230u64 } else { 0x425243323073u64 };
        let mut p = Player {
            inst,
            names: Names::new(),
            traces_on,
            net: net.to_string(),
            chain_id,
            u_tx: BTreeSet::new(),
            u_hash: BTreeSet::new(),
            u_insc: BTreeSet::new(),
            u_addr: BTreeSet::new(),
            u_cell_addr: BTreeSet::new(),
            u_slots: BTreeSet::new(),
            u_idx: BTreeSet::new(),
            u_bal: BTreeSet::new(),
            max_h: 0,
            cell_rt: asm::cell_runtime(),
            probe_rt: asm::probe_runtime(),
            mid_block: false,
            last_ledger: json!({"bals": [], "supply": []}),
            light_obs: false,
            skip_obs: false,
            memo: BTreeMap::new(),
            sig_seen: BTreeMap::new(),
            sigdup: false,
            cell_order: Vec::new(),
            u_probe_addr: BTreeSet::new(),
            digest_on: false,
            digest_mutating_only: false,
            keep_raw: false,
            digest: String::new(),
            raw: Vec::new(),
        };
        for a in ["idx", "ctrl", "dead"] {
            p.u_addr.insert(a.to_string());
        }
        Ok(p)
    }

    fn addr_hex(&mut self, name: &str) -> String {
        match self.names.addr(name) {
            Some(a) => format!("{:#x}", a),
            None => name.to_string(),
        }
    }

    // ------------------------------------------------------------------------------------------
    // receipts -> abstract form

    fn abs_topic(t: &Value) -> Value {
        let Some(b) = b256_of(t) else { return json!("?") };
        let s = b.as_slice();
        if s[0..31].iter().all(|x| *x == 0) {
            json!(format!("{}", s[31]))
        } else {
            json!(format!("T{}", hex::encode(&s[0..5])))
        }
    }

    fn abs_logs(&mut self, logs: &Value) -> Value {
        let mut out = Vec::new();
        for l in logs.as_array().cloned().unwrap_or_default() {
            let a = self.names.name_of_json(&l["address"]);
            let t: Vec<Value> = l["topics"].as_array().cloned().unwrap_or_default().iter().map(Self::abs_topic).collect();
            out.push(json!({"a": a, "t": t}));
        }
        Value::Array(out)
    }

    fn abs_receipt(&mut self, rc: &Value) -> Value {
        let h = b256_of(&rc["transactionHash"]).unwrap_or_default();
        let id = self.names.tx_token(&h);
        self.u_tx.insert(id.clone());
        let created = self.names.name_of_json(&rc["contractAddress"]);
        if created != "NULL" {
            self.u_addr.insert(created.clone());
        }
        let b = u64_of(&rc["blockNumber"]).unwrap_or(0);
        let i = u64_of(&rc["transactionIndex"]).unwrap_or(0);
        self.u_idx.insert((b, i));
        let out = if self.traces_on {
            let tr = self.rpc("debug_traceTransaction", json!([rc["transactionHash"]])).ok().cloned().unwrap_or(Value::Null);
            self.abs_output(tr["output"].as_str().unwrap_or("0x"))
        } else {
            "off".to_string()
        };
        json!({
            "id": id,
            "out": out,
            "status": u64_of(&rc["status"]).unwrap_or(9),
            "logs": self.abs_logs(&rc["logs"]),
            "created": created,
            "b": b, "i": i,
            "bh": names::token_of_hash(&b256_of(&rc["blockHash"]).unwrap_or_default()),
            "from": self.names.name_of_json(&rc["from"]),
            "to": self.names.name_of_json(&rc["to"]),
        })
    }

    /// abstract form of returned bytes: empty | w:<small word> | code:<known runtime> | ?<prefix>
    pub fn abs_output(&self, hexstr: &str) -> String {
        let bytes = hex::decode(hexstr.trim_start_matches("0x")).unwrap_or_default();
        if bytes.is_empty() {
            return "empty".into();
        }
        if bytes == self.cell_rt {
            return "code:cell".into();
        }
        if bytes == self.probe_rt {
            return "code:probe".into();
        }
        if bytes.len() == 24577 && bytes.iter().all(|x| *x == 0) {
            return "code:big".into();
        }
        if bytes.len() == 32 && bytes[0..24].iter().all(|x| *x == 0) {
            return format!("w:{}", u64::from_be_bytes(bytes[24..32].try_into().unwrap()));
        }
        format!("?{}:{}", bytes.len(), hex::encode(&bytes[0..bytes.len().min(6)]))
    }

    fn eth_call_obj(&mut self, step: &Value) -> (Value, Value) {
        let from = step["from"].as_str().unwrap_or("dead").to_string();
        let (kind, bytes) = self.data_for(step);
        let mut o = serde_json::Map::new();
        o.insert("from".into(), json!(self.addr_hex(&from)));
        if kind == "call" {
            let to = step["to"].as_str().unwrap_or("dead").to_string();
            o.insert("to".into(), json!(self.addr_hex(&to)));
        }
        o.insert("data".into(), json!(hexs(&bytes)));
        (Value::Object(o), Self::abs_tx(step, &kind, &from))
    }

    fn do_ethcall(&mut self, step: &Value) -> Value {
        let (obj, mut abs) = self.eth_call_obj(step);
        let r = match step["block"].as_u64() {
            Some(b) => {
                abs["bn"] = json!(b);
                self.rpc("eth_call", json!([obj, format!("{}", b)]))
            }
            None => self.rpc("eth_call", json!([obj])),
        };
        let (ok, out) = match &r {
            Outcome::Ok(v) => (true, self.abs_output(v.as_str().unwrap_or("0x"))),
            Outcome::Err { data, .. } => (false, self.abs_output(data.as_ref().and_then(|d| d.as_str()).unwrap_or("0x"))),
            _ => (false, "crash".to_string()),
        };
        json!({"ev": "EthCall", "tx": abs, "ok": ok, "out": out, "res": if matches!(r, Outcome::Panic(_) | Outcome::Timeout) { r.res() } else { "ok" }, "err": r.err_text()})
    }

    /// eth_getLogs with an abstract filter; no projection is attached (reads are covered by C10)
    fn do_getlogs(&mut self, step: &Value) -> Value {
        let h = self.rpc("eth_blockNumber", json!([])).ok().and_then(u64_of).unwrap_or(0) as i64;
        let fb = step["fb"].as_i64().unwrap_or(-1);
        let tb = step["tb"].as_i64().unwrap_or(-1);
        let from = if fb < 0 { -1 } else { (h - fb).max(0) };
        let to = if tb < 0 { -1 } else { (h - tb).max(0) };
        let addr_name = match step["addr"].as_str().unwrap_or("NULL") {
            "A" => self.cell_order.get(0).cloned().unwrap_or("dead".into()),
            "B" => self.cell_order.get(1).cloned().unwrap_or("dead".into()),
            x => x.to_string(),
        };
        let mut f = serde_json::Map::new();
        if from >= 0 {
            f.insert("fromBlock".into(), json!(format!("{}", from)));
        }
        if to >= 0 {
            f.insert("toBlock".into(), json!(format!("{:#x}", to)));
        }
        if addr_name != "NULL" {
            f.insert("address".into(), json!(self.addr_hex(&addr_name)));
        }
        let word = |v: u64| format!("0x{:064x}", v);
        let mut topics = Vec::new();
        for p in step["topics"].as_array().cloned().unwrap_or_default() {
            let vs: Vec<u64> = p["v"].as_array().cloned().unwrap_or_default().iter().filter_map(|x| x.as_u64()).collect();
            match p["k"].as_str().unwrap_or("any") {
                "one" => topics.push(json!(word(vs[0]))),
                "alt" => topics.push(Value::Array(vs.iter().map(|v| json!(word(*v))).collect())),
                _ => topics.push(Value::Null),
            }
        }
        if step["topics"].is_array() {
            f.insert("topics".into(), Value::Array(topics));
        }
        let r = self.rpc("eth_getLogs", json!([Value::Object(f)]));
        let mut logs = Vec::new();
        if let Some(list) = r.ok().and_then(|v| v.as_array().cloned()) {
            for l in list {
                let id = b256_of(&l["transactionHash"]).map(|x| self.names.tx_token(&x)).unwrap_or("NULL".into());
                let a = self.names.name_of_json(&l["address"]);
                let t: Vec<Value> = l["topics"].as_array().cloned().unwrap_or_default().iter().map(Self::abs_topic).collect();
                logs.push(json!({"b": u64_of(&l["blockNumber"]).unwrap_or(u64::MAX), "li": u64_of(&l["logIndex"]).unwrap_or(u64::MAX), "id": id, "a": a, "t": t}));
            }
        }
        json!({"ev": "GetLogs", "filter": {"addr": addr_name, "topics": step["topics"], "from": from, "to": to},
               "ok": r.is_ok(), "logs": logs, "res": if matches!(r, Outcome::Panic(_) | Outcome::Timeout) { r.res() } else { "ok" }, "err": r.err_text()})
    }

    fn do_estimate(&mut self, step: &Value) -> Value {
        let (obj, abs) = self.eth_call_obj(step);
        let r = self.rpc("eth_estimateGas", json!([obj]));
        let (ok, gas) = match &r {
            Outcome::Ok(v) => (true, u64_of(v).unwrap_or(0)),
            _ => (false, 0),
        };
        json!({"ev": "Estimate", "tx": abs, "ok": ok, "gas": gas.to_string(), "res": if matches!(r, Outcome::Panic(_) | Outcome::Timeout) { r.res() } else { "ok" }, "err": r.err_text()})
    }

    fn do_callmany(&mut self, step: &Value) -> Value {
        let mut objs = Vec::new();
        let mut abss = Vec::new();
        for c in step["calls"].as_array().cloned().unwrap_or_default() {
            self.note_common(&c);
            let (o, a) = self.eth_call_obj(&c);
            objs.push(o);
            abss.push(a);
        }
        let method = if step["estimate"].as_bool().unwrap_or(false) { "eth_estimateGasMany" } else { "eth_callMany" };
        let r = self.rpc(method, json!([objs]));
        let (ok, outs) = match &r {
            Outcome::Ok(v) => (true, v.as_array().cloned().unwrap_or_default().iter().map(|x| json!(self.abs_output(x.as_str().unwrap_or("0x")))).collect::<Vec<_>>()),
            _ => (false, vec![]),
        };
        // the index named in "Execution with index i reverted"
        let failidx = match &r {
            Outcome::Err { message, .. } => message.split("index ").nth(1).and_then(|x| x.split_whitespace().next()).and_then(|x| x.parse::<i64>().ok()).unwrap_or(-1),
            _ => -1,
        };
        json!({"ev": "CallMany", "estimate": method == "eth_estimateGasMany", "txs": abss, "ok": ok, "outs": outs, "failidx": failidx,
               "res": if matches!(r, Outcome::Panic(_) | Outcome::Timeout) { r.res() } else { "ok" }, "err": r.err_text()})
    }

    // ------------------------------------------------------------------------------------------
    // building calls

    fn data_for(&mut self, step: &Value) -> (String, Vec<u8>) {
        // returns (kind, bytes) for a tx step; kind create|call
        let ckind = step["ckind"].as_str().unwrap_or("NULL");
        if step["to"].as_str().unwrap_or("NULL") == "NULL" && ckind != "NULL" {
            let bytes = match ckind {
                "cell" => asm::initcode(&self.cell_rt),
                "probe" => asm::initcode(&self.probe_rt),
                "bad" => vec![0x5f, 0x5f, 0xfd], // PUSH0 PUSH0 REVERT
                "big" => vec![0x62, 0x00, 0x60, 0x01, 0x5f, 0xf3], // PUSH3 24577 PUSH0 RETURN: 24577 bytes of STOP, one over EIP-170
                _ => vec![0xfe],
            };
            return ("create".into(), bytes);
        }
        if Self::has_lc(step) {
            return ("call".into(), self.ledger_calldata(&step["lc"]));
        }
        let mut ops = step["ops"].clone();
        self.resolve_callext(&mut ops);
        ("call".into(), asm::encode_ops(&ops))
    }

    /// callext names its callee abstractly ("c_s1_0"): put the real address next to it
    fn resolve_callext(&mut self, ops: &mut Value) {
        if let Some(arr) = ops.as_array_mut() {
            for o in arr.iter_mut() {
                if o["op"] == "callext" {
                    let name = o["to"].as_str().unwrap_or("dead").to_string();
                    self.u_addr.insert(name.clone());
                    if name.starts_with("c_") {
                        self.u_cell_addr.insert(name.clone());
                    }
                    let a = self.addr_hex(&name);
                    o["addr"] = json!(a);
                }
                if o.get("ops").is_some() {
                    let mut inner = o["ops"].clone();
                    self.resolve_callext(&mut inner);
                    o["ops"] = inner;
                }
            }
        }
    }

    fn ledger_calldata(&mut self, lc: &Value) -> Vec<u8> {
        let f = lc["fn"].as_str().unwrap_or("");
        let on = lc["on"].as_str().unwrap_or("ctrl");
        let tk: Bytes = Self::ticker_real(lc["tk"].as_str().unwrap_or("")).as_bytes().to_vec().into();
        let a = self.names.addr(lc["a"].as_str().unwrap_or("zero")).unwrap_or(Address::ZERO);
        let b = self.names.addr(lc["b"].as_str().unwrap_or("zero")).unwrap_or(Address::ZERO);
        let v = names::amount_of(lc["v"].as_u64().unwrap_or(0));
        if on == "ctrl" {
            match f {
                "transfer" => ctrl_abi::transferCall::new((tk, a, v)).abi_encode(),
                "approve" => ctrl_abi::approveCall::new((tk, a, v)).abi_encode(),
                "transferFrom" => ctrl_abi::transferFromCall::new((tk, a, b, v)).abi_encode(),
                "mint" => ctrl_abi::mintCall::new((tk, a, v)).abi_encode(),
                "burn" => ctrl_abi::burnCall::new((tk, a, v)).abi_encode(),
                _ => vec![],
            }
        } else {
            match f {
                "transfer" => tok_abi::transferCall::new((a, v)).abi_encode(),
                "approve" => tok_abi::approveCall::new((a, v)).abi_encode(),
                "transferFrom" => tok_abi::transferFromCall::new((a, b, v)).abi_encode(),
                "mint" => tok_abi::mintCall::new((a, v)).abi_encode(),
                "burn" => tok_abi::burnCall::new((a, v)).abi_encode(),
                _ => vec![],
            }
        }
    }

    /// spelling tokens of the schedule -> the ticker actually sent ("U:ETH"/"u:eth" differ only in the case of a non-ASCII letter)
    pub fn ticker_real(spell: &str) -> String {
        match spell {
            "U:ETH" => "ÉTH".to_string(),
            "u:eth" => "éth".to_string(),
            x => x.to_string(),
        }
    }

    fn has_lc(step: &Value) -> bool {
        step["lc"].is_object() && step["lc"]["fn"].as_str().map(|f| f != "none").unwrap_or(false)
    }

    fn gas_len(step: &Value) -> u64 {
        match &step["gas"] {
            Value::String(s) if s == "tiny" => 1,
            Value::String(s) if s == "max" => u64::MAX,
            Value::Number(n) => n.as_u64().unwrap_or(100_000),
            _ => 1_000_000,
        }
    }

    fn note_common(&mut self, step: &Value) {
        if let Some(h) = step["hash"].as_str() {
            if h != "zero" {
                self.u_hash.insert(h.to_string());
            }
        }
        if let Some(i) = step["insc"].as_str() {
            self.u_insc.insert(i.to_string());
        }
        for k in ["from", "to", "signer", "holder"] {
            if let Some(a) = step[k].as_str() {
                if a != "NULL" {
                    self.u_addr.insert(a.to_string());
                }
            }
        }
        if let Some(ops) = step["ops"].as_array() {
            Self::collect_slots(ops, &mut self.u_slots);
        }
        if Self::has_lc(step) {
            let lc = step["lc"].clone();
            let tk = lc["tk"].as_str().unwrap_or("").to_string();
            let spell = lc["spell"].as_str().unwrap_or(&tk).to_string();
            for k in ["a", "b"] {
                if let Some(a) = lc[k].as_str() {
                    if a != "zero" && a != "NULL" {
                        self.u_addr.insert(a.to_string());
                        self.u_bal.insert((tk.clone(), spell.clone(), a.to_string()));
                    }
                }
            }
            if let Some(f) = step["from"].as_str() {
                self.u_bal.insert((tk.clone(), spell.clone(), f.to_string()));
            }
        }
    }

    fn collect_slots(ops: &[Value], out: &mut BTreeSet<u64>) {
        for o in ops {
            if o["op"] == "sstore" || o["op"] == "ret" || o["op"] == "number" || o["op"] == "env" || o["op"] == "bh" {
                out.insert(o["s"].as_u64().unwrap_or(0));
            }
            if let Some(inner) = o["ops"].as_array() {
                Self::collect_slots(inner, out);
            }
        }
    }

    /// abstract transaction record for the trace (what Brc20Ref calls `tx`)
    fn abs_tx(step: &Value, kind: &str, from: &str) -> Value {
        json!({
            "kind": kind,
            "from": from,
            "to": if kind == "create" { json!("NULL") } else { step["to"].clone() },
            "ckind": if kind == "create" { step["ckind"].clone() } else { json!("NULL") },
            "ops": if step["ops"].is_array() { step["ops"].clone() } else { json!([]) },
            "lc": if Self::has_lc(step) { step["lc"].clone() } else { json!({"fn": "none"}) },
            "gas": if step["gas"] == json!("tiny") { json!("tiny") } else { json!("ample") },
            "txid": if step["txid"].is_string() { step["txid"].clone() } else { json!("zero") },
        })
    }

    // ------------------------------------------------------------------------------------------
    // one step

    pub fn raw_tx_public(&mut self, step: &Value) -> Vec<u8> {
        self.raw_tx(step).0
    }

    /// like `step` but without taking the projection (used to reach a state quickly)
    pub fn step_noobs(&mut self, step: &Value) -> Value {
        self.skip_obs = true;
        let ev = self.step(step);
        self.skip_obs = false;
        ev
    }

    pub fn step(&mut self, step: &Value) -> Value {
        self.note_common(step);
        let op = step["op"].as_str().unwrap_or("");
        let mut ev = match op {
            "reset" => json!({"ev": "Reset", "res": "ok"}),
            "init" => self.do_init(step),
            "mine" => {
                let r = self.rpc("brc20_mine", json!([step["k"], step["ts"]]));
                json!({"ev": "Mine", "k": step["k"], "ts": step["ts"], "res": r.res(), "err": r.err_text()})
            }
            "tx" => self.do_tx(step),
            "transact" => self.do_transact(step),
            "finalise" => {
                let h = names::hash_of_token(step["hash"].as_str().unwrap_or("zero"), 0);
                let r = self.rpc("brc20_finaliseBlock", json!([step["ts"], hexs(h.as_slice()), step["count"]]));
                if r.is_ok() {
                    self.mid_block = false;
                }
                json!({"ev": "Finalise", "ts": step["ts"], "hash": step["hash"], "count": step["count"], "res": r.res(), "err": r.err_text()})
            }
            "commit" => {
                let r = self.rpc("brc20_commitToDatabase", json!([]));
                json!({"ev": "Commit", "res": r.res(), "err": r.err_text()})
            }
            "clear" => {
                let r = self.rpc("brc20_clearCaches", json!([]));
                if r.is_ok() {
                    self.mid_block = false;
                }
                json!({"ev": "Clear", "res": r.res(), "err": r.err_text()})
            }
            "restart" => {
                let r = self.inst.reopen();
                if r.is_ok() {
                    self.mid_block = false;
                }
                json!({"ev": "Restart", "res": if r.is_ok() { "ok" } else { "err" }, "err": r.err().unwrap_or_default()})
            }
            "getlogs" => return self.do_getlogs(step),
            "ethcall" => self.do_ethcall(step),
            "estimate" => self.do_estimate(step),
            "callmany" => self.do_callmany(step),
            "reorg" => {
                let r = self.rpc("brc20_reorg", json!([step["n"]]));
                json!({"ev": "Reorg", "n": step["n"], "res": r.res(), "err": r.err_text()})
            }
            _ => json!({"ev": "Unknown", "res": "err"}),
        };
        if !self.skip_obs {
            let obs = self.obs();
            ev["obs"] = obs;
        }
        if self.sigdup {
            ev["sigdup"] = json!(true);
        }
        ev
    }

    fn do_init(&mut self, step: &Value) -> Value {
        let h = names::hash_of_token(step["hash"].as_str().unwrap_or("zero"), 0);
        let r = self.rpc("brc20_initialise", json!([hexs(h.as_slice()), step["ts"], step["height"]]));
        // the receipt of the controller deployment is not returned; find the transaction of the genesis block
        let mut id = json!("NULL");
        let mut rc_abs = json!("NULL");
        if r.res() == "ok" || r.res() == "enverr" {
            let height = step["height"].as_u64().unwrap_or(0);
            let b = self.rpc("eth_getBlockByNumber", json!([format!("{}", height), false]));
            if let Some(b) = b.ok() {
                if let Some(t) = b["transactions"].as_array().and_then(|a| a.first()) {
                    if let Some(h) = b256_of(t) {
                        let tok = self.names.tx_token(&h);
                        self.u_tx.insert(tok.clone());
                        self.u_idx.insert((height, 0));
                        id = json!(tok);
                        let rc = self.rpc("eth_getTransactionReceipt", json!([t])).ok().cloned().unwrap_or(Value::Null);
                        if rc.is_object() {
                            rc_abs = self.abs_receipt(&rc);
                        }
                    }
                }
            }
            self.u_insc.insert("BRC20_CONTROLLER_INIT".into());
        }
        json!({"ev": "Initialise", "hash": step["hash"], "ts": step["ts"], "height": step["height"], "id": id, "rc": rc_abs,
               "res": r.res(), "err": r.err_text()})
    }

    fn enc_fields(&self, step: &Value, bytes: &[u8], hex_key: &str, b64_key: &str, params: &mut serde_json::Map<String, Value>) {
        let enc = step["enc"].as_str().unwrap_or("hex");
        let b64 = || -> String {
            brc20_prog::types::Base64Bytes::from_bytes(bytes.to_vec().into()).map(|b| b.to_string()).unwrap_or_default()
        };
        match enc {
            "b64" => {
                params.insert(b64_key.into(), json!(b64()));
            }
            "both" => {
                params.insert(hex_key.into(), json!(hexs(bytes)));
                params.insert(b64_key.into(), json!(b64()));
            }
            "none" => {}
            _ => {
                params.insert(hex_key.into(), json!(hexs(bytes)));
            }
        }
    }

    fn do_tx(&mut self, step: &Value) -> Value {
        let via = step["via"].as_str().unwrap_or("call");
        let hash = names::hash_of_token(step["hash"].as_str().unwrap_or("zero"), 0);
        let txid = names::txid_of_token(step["txid"].as_str().unwrap_or("zero"));
        let mut params = serde_json::Map::new();
        params.insert("timestamp".into(), step["ts"].clone());
        params.insert("hash".into(), json!(hexs(hash.as_slice())));
        params.insert("tx_idx".into(), step["idx"].clone());
        params.insert("inscription_id".into(), step["insc"].clone());
        let (method, abs_tx) = match via {
            "deploy" | "call" => {
                let from = step["from"].as_str().unwrap_or("s1").to_string();
                let (kind, bytes) = self.data_for(step);
                params.insert("from_pkscript".into(), json!(names::pkscript(&from)));
                params.insert("inscription_byte_len".into(), json!(Self::gas_len(step)));
                params.insert("op_return_tx_id".into(), json!(hexs(txid.as_slice())));
                self.enc_fields(step, &bytes, "data", "base64_data", &mut params);
                if via == "call" {
                    if let Some(it) = step["insc_to"].as_str() {
                        if it != "NULL" {
                            params.insert("contract_inscription_id".into(), json!(it));
                        }
                    }
                    if !params.contains_key("contract_inscription_id") {
                        let to = step["to"].as_str().unwrap_or("dead").to_string();
                        params.insert("contract_address".into(), json!(self.addr_hex(&to)));
                    }
                }
                (if via == "deploy" { "brc20_deploy" } else { "brc20_call" }, Self::abs_tx(step, &kind, &from))
            }
            "deposit" | "withdraw" => {
                let holder = step["holder"].as_str().unwrap_or("s1").to_string();
                let spell = step["ticker"].as_str().unwrap_or("ordi").to_string();
                let tk = step["tk"].as_str().map(|s| s.to_string()).unwrap_or(spell.to_ascii_lowercase());
                // every known spelling of this ticker is watched from now on
                for other in ["ordi", "OrDi", "ORDI", "sats", "U:ETH", "u:eth"] {
                    let canon = if other.ends_with("TH") || other.ends_with("th") { "u:eth".to_string() } else { other.to_ascii_lowercase() };
                    if canon == tk {
                        self.u_bal.insert((tk.clone(), other.to_string(), holder.clone()));
                    }
                }
                let amt = step["amt"].as_u64().unwrap_or(0);
                let pk = if holder == "zero" { String::new() } else { names::pkscript(&holder) };
                params.insert(if via == "deposit" { "to_pkscript" } else { "from_pkscript" }.into(), json!(pk));
                params.insert("ticker".into(), json!(Self::ticker_real(&spell)));
                params.insert("amount".into(), json!(format!("{:#x}", names::amount_of(amt))));
                self.u_bal.insert((tk.clone(), spell.clone(), holder.clone()));
                self.u_bal.insert((tk.clone(), tk.clone(), holder.clone()));
                let lc = json!({"fn": if via == "deposit" { "mint" } else { "burn" }, "on": "ctrl", "tk": tk, "spell": spell, "a": holder, "b": "zero", "v": amt});
                let tx = json!({"kind": "call", "from": "idx", "to": "ctrl", "ckind": "NULL", "ops": [], "lc": lc, "gas": "ample", "txid": "zero"});
                (if via == "deposit" { "brc20_deposit" } else { "brc20_withdraw" }, tx)
            }
            _ => ("brc20_call", json!({})),
        };
        let r = self.rpc(method, Value::Object(params));
        let mut ev = json!({"ev": "AddTx", "via": via, "tx": abs_tx, "insc": step["insc"], "idx": step["idx"],
                            "hash": step["hash"], "ts": step["ts"], "txid": step["txid"], "res": r.res(), "err": r.err_text(),
                            "rc": "NULL"});
        if let Some(rc) = r.ok() {
            if rc.is_object() {
                self.mid_block = true;
                let a = self.abs_receipt(rc);
                // the receipt returned to the indexer is the one served by hash right away
                let again = self.rpc("eth_getTransactionReceipt", json!([rc["transactionHash"]]));
                ev["returned_eq_served"] = json!(again.ok() == Some(rc));
                ev["rc"] = a;
                if abs_tx["ckind"] == json!("probe") {
                    if let Some(c) = ev["rc"]["created"].as_str() {
                        if c != "NULL" {
                            self.u_probe_addr.insert(c.to_string());
                        }
                    }
                }
                if abs_tx["ckind"] == json!("cell") {
                    if let Some(c) = ev["rc"]["created"].as_str() {
                        if c != "NULL" {
                            if !self.cell_order.contains(&c.to_string()) {
                                self.cell_order.push(c.to_string());
                            }
                            self.u_cell_addr.insert(c.to_string());
                        }
                    }
                }
            }
        }
        ev
    }

    /// builds a signed legacy transaction with the harness's own key material
    fn raw_tx(&mut self, step: &Value) -> (Vec<u8>, String, Value) {
        let (raw, name, abs, _) = self.raw_tx_with_sighash(step);
        (raw, name, abs)
    }

    fn raw_tx_with_sighash(&mut self, step: &Value) -> (Vec<u8>, String, Value, B256) {
        use alloy_consensus::{SignableTransaction, TxLegacy};
        use alloy_signer::SignerSync;
        let signer_name = step["signer"].as_str().unwrap_or("k1").to_string();
        let signer = names::signer_key(&signer_name);
        let (kind, bytes) = self.data_for(step);
        let chain = match step["chain"].as_str().unwrap_or("own") {
            "foreign" => Some(1u64),
            "none" => None,
            _ => Some(self.chain_id),
        };
        let to = if kind == "create" {
            alloy::primitives::TxKind::Create
        } else {
            let name = step["to"].as_str().unwrap_or("dead").to_string();
            alloy::primitives::TxKind::Call(self.names.addr(&name).unwrap_or(Address::ZERO))
        };
        let tx = TxLegacy {
            chain_id: chain,
            nonce: step["nonce"].as_u64().unwrap_or(0),
            gas_price: 0,
            gas_limit: 0,
            to,
            value: U256::ZERO,
            input: bytes.into(),
        };
        let sighash = tx.signature_hash();
        let sig = signer.sign_hash_sync(&sighash).unwrap();
        let signed = tx.into_signed(sig);
        let mut raw = Vec::new();
        signed.rlp_encode(&mut raw);
        let abs = Self::abs_tx(step, &kind, &signer_name);
        (raw, signer_name, abs, sighash)
    }

    fn do_transact(&mut self, step: &Value) -> Value {
        let hash = names::hash_of_token(step["hash"].as_str().unwrap_or("zero"), 0);
        let txid = names::txid_of_token(step["txid"].as_str().unwrap_or("zero"));
        let (mut raw, signer_name, abs, sighash) = self.raw_tx_with_sighash(step);
        let chain = step["chain"].as_str().unwrap_or("own");
        if chain == "garbage" {
            raw = vec![0xc1, 0x80, 0xff];
        }
        // own derivation of the identity: keccak of the raw bytes - except on mainnet for a transaction submitted while
        // the block under construction is below 929 000, where it is the signing hash
        let sig_regime = (self.net == "mainnet" || self.net == "bitcoin") && {
            let h = self.inst.call("eth_blockNumber", json!([])).ok().and_then(u64_of).unwrap_or(0);
            let next = if h == 0 && !self.inst.call("eth_getBlockByNumber", json!(["0", false])).is_ok() { 0 } else { h + 1 };
            next < 929_000
        };
        if sig_regime && chain != "garbage" {
            // the signing hash does not cover the signature: two signers sending the same (nonce, target, data) share it
            match self.sig_seen.get(&sighash) {
                Some(first) if *first != signer_name => self.sigdup = true,
                Some(_) => {}
                None => {
                    self.sig_seen.insert(sighash, signer_name.clone());
                }
            }
        }
        let id = self.names.tx_token(&if sig_regime && chain != "garbage" { sighash } else { keccak256(&raw) });
        self.u_tx.insert(id.clone());
        self.u_addr.insert(signer_name);
        let mut params = serde_json::Map::new();
        params.insert("timestamp".into(), step["ts"].clone());
        params.insert("hash".into(), json!(hexs(hash.as_slice())));
        params.insert("tx_idx".into(), step["idx"].clone());
        params.insert("inscription_id".into(), step["insc"].clone());
        params.insert("inscription_byte_len".into(), json!(Self::gas_len(step)));
        params.insert("op_return_tx_id".into(), json!(hexs(txid.as_slice())));
        self.enc_fields(step, &raw, "raw_tx_data", "base64_raw_tx_data", &mut params);
        let r = self.rpc("brc20_transact", Value::Object(params));
        let mut rcs = Vec::new();
        let mut served = true;
        if let Some(list) = r.ok().and_then(|v| v.as_array()) {
            for rc in list.clone() {
                self.mid_block = true;
                rcs.push(self.abs_receipt(&rc));
                let again = self.rpc("eth_getTransactionReceipt", json!([rc["transactionHash"]]));
                served = served && again.ok() == Some(&rc);
            }
        }
        // the waiting set right after the call (pins the nondeterministic part of the drain in the reference machine)
        let mut pool_after = Vec::new();
        let pc = self.rpc("txpool_content", json!([])).ok().cloned().unwrap_or(Value::Null);
        if let Some(pm) = pc["pending"].as_object() {
            for (acct, m) in pm {
                let an = self.names.name_of_json(&json!(acct));
                for (nonce, _) in m.as_object().cloned().unwrap_or_default() {
                    pool_after.push(json!({"signer": an, "nonce": nonce.parse::<u64>().unwrap_or(u64::MAX)}));
                }
            }
        }
        json!({"ev": "Transact", "pool_after": pool_after, "tx": abs, "nonce": step["nonce"], "chain": chain, "insc": step["insc"], "idx": step["idx"],
               "hash": step["hash"], "ts": step["ts"], "txid": step["txid"], "id": id, "res": r.res(), "err": r.err_text(),
               "rcs": rcs, "returned_eq_served": served})
    }

    // ------------------------------------------------------------------------------------------
    // the projection

    fn get(&mut self, method: &str, params: Value) -> Outcome {
        self.rpc(method, params)
    }

    /// every request of the player goes through here; in replica mode the raw answers are digested
    pub fn rpc(&mut self, method: &str, params: Value) -> Outcome {
        let r = self.inst.call(method, params.clone());
        if self.digest_on && (!self.digest_mutating_only || crate::methods::MUTATING.contains(&method)) {
            let text = match &r {
                Outcome::Ok(v) => format!("ok:{}", normalise(v)),
                Outcome::Err { code, message, data } => format!("err:{}:{}:{}", code, message, data.as_ref().map(normalise).unwrap_or_default()),
                Outcome::Panic(m) => format!("panic:{}", m),
                Outcome::Timeout => "timeout".to_string(),
            };
            let line = format!("{} {} -> {}", method, params, text);
            self.digest = sha256::digest(format!("{}\n{}", self.digest, line));
            if self.keep_raw {
                self.raw.push(line);
            }
        }
        r
    }

    pub fn obs(&mut self) -> Value {
        let mut flags: BTreeMap<&'static str, bool> = BTreeMap::new();
        let mut fail: Vec<String> = Vec::new();
        macro_rules! flag {
            ($name:expr, $cond:expr, $($arg:tt)*) => {{
                let c = $cond;
                let e = flags.entry($name).or_insert(true);
                if !c { *e = false; if fail.len() < 5 { fail.push(format!("{}: {}", $name, format!($($arg)*))); } }
            }};
        }
        let height = self.get("eth_blockNumber", json!([])).ok().and_then(u64_of).unwrap_or(u64::MAX);
        if height != u64::MAX && height > self.max_h {
            self.max_h = height;
        }
        // ---- methods with static answers
        {
            let st = |me: &mut Self, m: &str, p: Value| me.get(m, p).ok().cloned().unwrap_or(json!("ERR"));
            let zero_hash = format!("0x{}", "00".repeat(32));
            flag!("static", st(self, "eth_gasPrice", json!([])) == json!("0x0") && st(self, "eth_maxPriorityFeePerGas", json!([])) == json!("0x0")
                && st(self, "eth_blobBaseFee", json!([])) == json!("0x0") && st(self, "eth_syncing", json!([])) == json!(false)
                && st(self, "net_version", json!([])) == json!("4252433230")
                && st(self, "eth_getUncleCountByBlockNumber", json!([0])) == json!("0x0")
                && st(self, "eth_getUncleCountByBlockHash", json!([zero_hash])) == json!("0x0")
                && st(self, "eth_getUncleByBlockNumberAndIndex", json!([0, 0])).is_null()
                && st(self, "eth_getUncleByBlockHashAndIndex", json!([zero_hash, 0])).is_null()
                && st(self, "eth_accounts", json!([])).as_array().map(|a| a.len()) == Some(1)
                && st(self, "eth_chainId", json!([])) == json!(format!("0x{:x}", self.chain_id)),
                "a method with a static answer answered something else");
            let mut bal_ok = true;
            for a in self.u_addr.clone() {
                let hx = self.addr_hex(&a);
                bal_ok &= st(self, "eth_getBalance", json!([hx, "latest"])) == json!("0x0");
            }
            flag!("static_balance", bal_ok, "eth_getBalance is not 0x0 for a known address");
        }
        // ---- blocks
        let mut blocks = Vec::new();
        let mut block_txs: BTreeMap<u64, Vec<B256>> = BTreeMap::new();
        let top = self.max_h + 1;
        let lo = if self.light_obs && top > 14 { top - 14 } else { 0 };
        for h in lo..=top {
            let r = self.get("eth_getBlockByNumber", json!([format!("{}", h), false]));
            let Some(b) = r.ok().cloned() else {
                let prefix = format!("blk:{}:", h);
                self.memo.retain(|k, _| !k.starts_with(&prefix));
                blocks.push(json!({"h": h, "hash": "NULL"}));
                continue;
            };
            let bh = b256_of(&b["hash"]).unwrap_or_default();
            let tok = names::token_of_hash(&bh);
            self.u_hash.insert(tok.clone());
            let hashes: Vec<B256> = b["transactions"].as_array().cloned().unwrap_or_default().iter().filter_map(b256_of).collect();
            let ids: Vec<String> = hashes.iter().map(|x| self.names.tx_token(x)).collect();
            for (i, id) in ids.iter().enumerate() {
                self.u_tx.insert(id.clone());
                self.u_idx.insert((h, i as u64));
            }
            flag!("blk_number", u64_of(&b["number"]) == Some(h), "block {} says number {:?}", h, b["number"]);
            flag!("blk_ntx", u64_of(&b["nonce"]) == Some(ids.len() as u64) || true, "");
            // by hash, both forms
            let by_hash = self.get("eth_getBlockByHash", json!([b["hash"], false]));
            flag!("blk_by_hash", by_hash.ok().map(strip_mine_ts) == Some(strip_mine_ts(&b)), "block {} by hash differs", h);
            let full = self.get("eth_getBlockByNumber", json!([format!("{}", h), true]));
            let full_txs = full.ok().map(|f| f["transactions"].clone()).unwrap_or(Value::Null);
            let mut expect_full = Vec::new();
            for x in &hashes {
                expect_full.push(self.get("eth_getTransactionByHash", json!([hexs(x.as_slice())])).ok().cloned().unwrap_or(Value::Null));
            }
            flag!("blk_full", full_txs == Value::Array(expect_full.clone()), "full tx list of block {} differs from the txs by hash", h);
            let c1 = self.get("eth_getBlockTransactionCountByNumber", json!([format!("{}", h)])).ok().and_then(u64_of);
            let c2 = self.get("eth_getBlockTransactionCountByHash", json!([b["hash"]])).ok().and_then(u64_of);
            flag!("blk_count", c1 == Some(ids.len() as u64) && c2 == c1, "tx count of block {}: {:?}/{:?} vs {}", h, c1, c2, ids.len());
            // receipts: cumulative gas, log indexes, bloom, root
            let mut cum = 0u64;
            let mut cum_overflowed = false;
            let mut li = 0u64;
            let mut bloom = Bloom::default();
            let mut ok_cum = true;
            let mut ok_li = true;
            let mut ok_link = true;
            for (i, x) in hashes.iter().enumerate() {
                let rc = self.get("eth_getTransactionReceipt", json!([hexs(x.as_slice())])).ok().cloned().unwrap_or(Value::Null);
                // running sum; where the sum does not fit 64 bits no figure is right: then the receipts only have to stay
                // monotone and (below) end at the block's own total
                let before = cum;
                match cum.checked_add(u64_of(&rc["gasUsed"]).unwrap_or(0)) {
                    Some(x) if !cum_overflowed => {
                        cum = x;
                        ok_cum &= u64_of(&rc["cumulativeGasUsed"]) == Some(cum);
                    }
                    _ => {
                        cum_overflowed = true;
                        let c = u64_of(&rc["cumulativeGasUsed"]).unwrap_or(0);
                        ok_cum &= c >= before;
                        cum = c;
                    }
                }
                ok_link &= rc["blockHash"] == b["hash"] && u64_of(&rc["blockNumber"]) == Some(h) && u64_of(&rc["transactionIndex"]) == Some(i as u64);
                let mut rbloom = Bloom::default();
                for l in rc["logs"].as_array().cloned().unwrap_or_default() {
                    ok_li &= u64_of(&l["logIndex"]) == Some(li);
                    ok_li &= l["blockHash"] == b["hash"] && u64_of(&l["transactionIndex"]) == Some(i as u64) && l["transactionHash"] == rc["transactionHash"];
                    li += 1;
                    let a: Address = l["address"].as_str().unwrap_or("").parse().unwrap_or_default();
                    let topics: Vec<B256> = l["topics"].as_array().cloned().unwrap_or_default().iter().filter_map(b256_of).collect();
                    let data = hex::decode(l["data"].as_str().unwrap_or("0x").trim_start_matches("0x")).unwrap_or_default();
                    if let Some(lg) = alloy::primitives::Log::new(a, topics, data.into()) {
                        bloom.accrue_log(&lg);
                        rbloom.accrue_log(&lg);
                    }
                }
                flag!("rc_bloom", rc["logsBloom"].as_str().map(|s| s.to_lowercase()) == Some(hexs(rbloom.as_slice())), "receipt bloom of tx {} in block {}", i, h);
            }
            flag!("cum_gas", ok_cum && u64_of(&b["gasUsed"]) == Some(cum), "cumulative gas of block {} (sum {} vs gasUsed {:?})", h, cum, b["gasUsed"]);
            flag!("log_idx", ok_li, "log indexes/links of block {}", h);
            flag!("rc_link", ok_link, "receipt block links of block {}", h);
            flag!("blk_bloom", b["logsBloom"].as_str().map(|s| s.to_lowercase()) == Some(hexs(bloom.as_slice())), "bloom of block {}", h);
            flag!("blk_root", b256_of(&b["transactionsRoot"]) == Some(merkle_root(&hashes)), "transactions root of block {}", h);
            // raw forms decode to the same data
            let raw_ok = self.check_raw(h, &b, &hashes);
            flag!("raw", raw_ok.is_ok(), "raw block {}: {}", h, raw_ok.clone().err().unwrap_or_default());
            // the block trace string is the |-joined OPI form of the traces of its transactions, in index order
            let bts = self.get("debug_getBlockTraceString", json!([format!("{}", h)])).ok().cloned().unwrap_or(Value::Null);
            let bth = self.get("debug_getBlockTraceHash", json!([format!("{}", h)])).ok().cloned().unwrap_or(Value::Null);
            let mut parts = Vec::new();
            for x in &hashes {
                let tr = self.get("debug_traceTransaction", json!([hexs(x.as_slice())])).ok().cloned().unwrap_or(Value::Null);
                if !tr.is_null() {
                    parts.push(opi_string(&tr));
                }
            }
            {
                let place = format!("blk:{}:{}", h, b["hash"].as_str().unwrap_or("?"));
                let prefix = format!("blk:{}:", h);
                let stale: Vec<String> = self.memo.keys().filter(|k| k.starts_with(&prefix) && !k.starts_with(&place)).cloned().collect();
                for k in stale {
                    self.memo.remove(&k);
                }
                for (kind, v) in [("b", &b), ("s", &bts)] {
                    let now = normalise(v);
                    let key = format!("{}:{}", place, kind);
                    match self.memo.get(&key) {
                        None => {
                            self.memo.insert(key, now);
                        }
                        Some(first) => {
                            flag!("stable", *first == now, "the {} of block {} changed since it was first served: {} -> {}", if kind == "b" { "header/tx list" } else { "trace string" }, h,
                                first.chars().take(300).collect::<String>(), now.chars().take(300).collect::<String>());
                        }
                    }
                }
            }
            let want = parts.join("|");
            flag!("blk_trace", bts.as_str() == Some(want.as_str()), "trace string of block {}: {:?} vs {:?}", h, bts.as_str().map(|x| x.chars().take(120).collect::<String>()), want.chars().take(120).collect::<String>());
            flag!("blk_trace_hash", bth.as_str() == Some(sha256::digest(want.clone()).as_str()), "trace hash of block {}", h);
            block_txs.insert(h, hashes);
            blocks.push(json!({"h": h, "hash": tok,
                "parent": names::token_of_hash(&b256_of(&b["parentHash"]).unwrap_or_default()),
                "ts": u64_of(&b["timestamp"]).unwrap_or(0), "txs": ids}));
        }
        // ---- block tags: latest / safe / finalized = the current height, earliest = 0, pending = the next height,
        //      0x-hex = decimal
        if height != u64::MAX {
            let by = |me: &mut Self, tag: String| me.get("eth_getBlockByNumber", json!([tag, false])).ok().cloned().map(|b| strip_mine_ts(&b)).unwrap_or(Value::Null);
            let cur = by(self, format!("{}", height));
            for tag in ["latest", "safe", "finalized"] {
                let b = by(self, tag.to_string());
                flag!("tags", b == cur, "eth_getBlockByNumber({}) is not block {}", tag, height);
            }
            let b_hex = by(self, format!("{:#x}", height));
            flag!("tags", b_hex == cur, "the 0x form of height {} names another block than the decimal form", height);
            let b_e = by(self, "earliest".to_string());
            let b_0 = by(self, "0".to_string());
            flag!("tags", b_e == b_0, "earliest is not block 0");
            let next = if cur.is_null() { 0 } else { height + 1 };
            let b_p = by(self, "pending".to_string());
            let b_n = by(self, format!("{}", next));
            flag!("tags", b_p == b_n, "pending is not the next height {}", next);
            let c_l = self.get("eth_getBlockTransactionCountByNumber", json!(["latest"])).ok().cloned().unwrap_or(Value::Null);
            let c_d = self.get("eth_getBlockTransactionCountByNumber", json!([format!("{}", height)])).ok().cloned().unwrap_or(Value::Null);
            flag!("tags", c_l == c_d, "transaction count of latest differs from the count of block {}", height);
        }
        // ---- hash -> number
        let mut byhash = Vec::new();
        for tok in self.u_hash.clone() {
            let h = names::hash_of_token(&tok, 0);
            let r = self.get("eth_getBlockByHash", json!([hexs(h.as_slice()), false]));
            let n = r.ok().and_then(|b| u64_of(&b["number"])).map(|x| x as i64).unwrap_or(-1);
            byhash.push(json!({"hash": tok, "h": n}));
        }
        // ---- transactions
        let mut txs = Vec::new();
        for id in self.u_tx.clone() {
            let h = self.names.tok_tx[&id];
            let hx = hexs(h.as_slice());
            let t = self.get("eth_getTransactionByHash", json!([hx])).ok().cloned().unwrap_or(Value::Null);
            let rc = self.get("eth_getTransactionReceipt", json!([hx])).ok().cloned().unwrap_or(Value::Null);
            let tr = self.get("debug_traceTransaction", json!([hx])).ok().cloned().unwrap_or(Value::Null);
            let insc = self.get("brc20_getInscriptionIdByTxHash", json!([hx])).ok().cloned().unwrap_or(Value::Null);
            let trace = if tr.is_null() { "no" } else { "yes" };
            if t.is_null() && rc.is_null() {
                let prefix = format!("tx:{}:", id);
                self.memo.retain(|k, _| !k.starts_with(&prefix));
                txs.push(json!({"id": id, "present": false, "trace": trace}));
                continue;
            }
            // immutability: the transaction, its receipt and its call trace are what they were when first seen at this place
            {
                let place = format!("tx:{}:{}:{}", id, t["blockHash"].as_str().unwrap_or("?"), t["transactionIndex"].as_str().unwrap_or("?"));
                let prefix = format!("tx:{}:", id);
                let stale: Vec<String> = self.memo.keys().filter(|k| k.starts_with(&prefix) && !k.starts_with(&place)).cloned().collect();
                for k in stale {
                    self.memo.remove(&k);
                }
                for (kind, v) in [("t", &t), ("r", &rc), ("c", &tr)] {
                    let now = normalise(v);
                    let key = format!("{}:{}", place, kind);
                    match self.memo.get(&key) {
                        None => {
                            self.memo.insert(key, now);
                        }
                        Some(first) => {
                            flag!("stable", *first == now, "the {} of tx {} changed since it was first served: {} -> {}", match kind { "t" => "transaction", "r" => "receipt", _ => "call trace" }, id,
                                first.chars().take(300).collect::<String>(), now.chars().take(300).collect::<String>());
                        }
                    }
                }
            }
            flag!("tx_rc_both", !t.is_null() && !rc.is_null(), "tx {} has only one of transaction/receipt", id);
            let b = u64_of(&t["blockNumber"]).unwrap_or(u64::MAX);
            let i = u64_of(&t["transactionIndex"]).unwrap_or(u64::MAX);
            flag!("tx_rc_agree", t["blockHash"] == rc["blockHash"] && u64_of(&rc["blockNumber"]) == Some(b)
                && u64_of(&rc["transactionIndex"]) == Some(i) && t["from"] == rc["from"] && t["to"] == rc["to"]
                && t["hash"] == rc["transactionHash"], "tx {} and its receipt disagree", id);
            let by_n = self.get("eth_getTransactionByBlockNumberAndIndex", json!([b, i])).ok().cloned().unwrap_or(Value::Null);
            let by_h = self.get("eth_getTransactionByBlockHashAndIndex", json!([t["blockHash"], i])).ok().cloned().unwrap_or(Value::Null);
            flag!("tx_by_idx", by_n == t, "tx {} is not the one served at ({}, {})", id, b, i);
            flag!("tx_by_hash_idx", by_h == t || !block_txs.contains_key(&b), "tx {} is not the one served at (hash of block {}, {})", id, b, i);
            // the call trace, when there is one, is the trace of THIS transaction
            // (a transaction that failed revm's validation never ran: its recorded trace is the empty default frame)
            if !tr.is_null() && u64_of(&rc["gasUsed"]) != Some(0) {
                let created_or_to = if t["to"].is_null() { rc["contractAddress"].clone() } else { t["to"].clone() };
                let low = |v: &Value| v.as_str().map(|x| x.to_lowercase());
                flag!("trace_link", low(&tr["from"]) == low(&t["from"]) && (tr["to"].is_null() || created_or_to.is_null() || low(&tr["to"]) == low(&created_or_to))
                    && low(&tr["input"]) == low(&t["input"]), "trace of tx {} names other parties or input than the transaction: trace {}/{}/{} tx {}/{}/{}", id, tr["from"], tr["to"], tr["input"].as_str().map(|x| x.chars().take(40).collect::<String>()).unwrap_or_default(), t["from"], created_or_to, t["input"].as_str().map(|x| x.chars().take(40).collect::<String>()).unwrap_or_default());
            }
            // own derivation of the hash for inscription transactions (r = s = 0)
            if t["r"] == json!("0x0") && t["s"] == json!("0x0") {
                let from: Address = t["from"].as_str().unwrap_or("").parse().unwrap_or_default();
                let mut data = from.as_slice().to_vec();
                data.extend_from_slice(&u64_of(&t["nonce"]).unwrap_or(0).to_be_bytes());
                match t["to"].as_str() {
                    Some(s) => data.extend_from_slice(s.parse::<Address>().unwrap_or_default().as_slice()),
                    None => data.extend_from_slice(&[0u8; 20]),
                }
                data.extend_from_slice(&hex::decode(t["input"].as_str().unwrap_or("0x").trim_start_matches("0x")).unwrap_or_default());
                flag!("tx_hash", keccak256(&data) == h, "hash of tx {} is not keccak(from|nonce|to|data)", id);
            }
            let created = self.names.name_of_json(&rc["contractAddress"]);
            txs.push(json!({"id": id, "present": true, "b": b, "i": i,
                "bh": names::token_of_hash(&b256_of(&t["blockHash"]).unwrap_or_default()),
                "from": self.names.name_of_json(&t["from"]), "to": self.names.name_of_json(&t["to"]),
                "nonce": u64_of(&t["nonce"]).unwrap_or(u64::MAX),
                "insc": insc.as_str().unwrap_or("NULL"),
                "status": u64_of(&rc["status"]).unwrap_or(9), "logs": self.abs_logs(&rc["logs"]),
                "created": created, "trace": trace}));
        }
        // ---- (block, index) -> tx
        let mut byidx = Vec::new();
        for (b, i) in self.u_idx.clone() {
            if self.light_obs && b + 14 < top {
                continue;
            }
            let t = self.get("eth_getTransactionByBlockNumberAndIndex", json!([b, i])).ok().cloned().unwrap_or(Value::Null);
            let id = match b256_of(&t["hash"]) {
                Some(h) => self.names.tx_token(&h),
                None => "NULL".into(),
            };
            byidx.push(json!({"b": b, "i": i, "id": id}));
        }
        // ---- inscription id -> tx, contract -> inscription id
        let mut insc = Vec::new();
        for i in self.u_insc.clone() {
            let rc = self.get("brc20_getTxReceiptByInscriptionId", json!([i])).ok().cloned().unwrap_or(Value::Null);
            let id = match b256_of(&rc["transactionHash"]) {
                Some(h) => {
                    let served = self.get("eth_getTransactionReceipt", json!([rc["transactionHash"]])).ok().cloned().unwrap_or(Value::Null);
                    flag!("insc_rc", served == rc, "receipt by inscription id {} differs from the one by hash", i);
                    self.names.tx_token(&h)
                }
                None => "NULL".into(),
            };
            insc.push(json!({"insc": i, "id": id}));
        }
        let mut cinsc = Vec::new();
        let mut nonces = Vec::new();
        let mut code = Vec::new();
        for a in self.u_addr.clone() {
            let hx = self.addr_hex(&a);
            let r = self.get("brc20_getInscriptionIdByContractAddress", json!([hx])).ok().cloned().unwrap_or(Value::Null);
            cinsc.push(json!({"a": a, "insc": r.as_str().unwrap_or("NULL")}));
            let n = self.get("eth_getTransactionCount", json!([hx, "latest"])).ok().and_then(u64_of).unwrap_or(u64::MAX);
            nonces.push(json!({"a": a, "n": n}));
            let c = self.get("eth_getCode", json!([hx])).ok().cloned().unwrap_or(Value::Null);
            let cs = c.as_str().unwrap_or("?").to_lowercase();
            let kind = if cs == "0x" {
                "none"
            } else if cs == hexs(&self.cell_rt) {
                "cell"
            } else if cs == hexs(&self.probe_rt) {
                "probe"
            } else if cs.len() == 2 + 2 * 24577 && cs[2..].bytes().all(|x| x == b'0') {
                "big"
            } else if a == "ctrl" {
                "ctrl"
            } else if a.starts_with("c_ctrl_") {
                "tok"
            } else {
                "?"
            };
            code.push(json!({"a": a, "c": kind}));
        }
        // ---- storage cells of Cell contracts
        let mut cells = Vec::new();
        for a in self.u_cell_addr.clone() {
            let hx = self.addr_hex(&a);
            for s in self.u_slots.clone() {
                let v = self.get("eth_getStorageAt", json!([hx, format!("{:#x}", s)])).ok().cloned().unwrap_or(Value::Null);
                let n = v.as_str().and_then(|s| U256::from_str_radix(s.trim_start_matches("0x"), 16).ok()).unwrap_or(U256::MAX);
                cells.push(json!({"a": a, "s": s, "v": if n < U256::from(1_000_000u64) { json!(n.as_limbs()[0]) } else { json!("?") }}));
            }
        }
        // ---- execution context recorded by Probe contracts (C19)
        let mut probe = Vec::new();
        for a in self.u_probe_addr.clone() {
            let hx = self.addr_hex(&a);
            for slot in 1..=18u64 {
                let v = self.get("eth_getStorageAt", json!([hx, format!("{:#x}", slot)])).ok().cloned().unwrap_or(Value::Null);
                let w = v.as_str().and_then(|s| U256::from_str_radix(s.trim_start_matches("0x"), 16).ok()).unwrap_or(U256::MAX);
                let b = B256::from(w.to_be_bytes::<32>());
                let abs = match slot {
                    3 | 10 | 11 | 12 | 13 | 14 => format!("h:{}", names::token_of_hash(&b)),
                    4 => if w == U256::from(self.chain_id) { "n:own".to_string() } else { format!("n:{}", w) },
                    7 | 8 | 9 => { let ad = Address::from_slice(&b.as_slice()[12..]); format!("a:{}", self.names.name(&ad)) }
                    17 => format!("x:{}", names::token_of_txid(&b)),
                    _ => format!("n:{}", w),
                };
                probe.push(json!({"a": a, "s": slot, "v": abs}));
            }
        }
        // ---- pending pool
        let mut pool = Vec::new();
        let pc = self.get("txpool_content", json!([])).ok().cloned().unwrap_or(Value::Null);
        if let Some(p) = pc["pending"].as_object() {
            for (acct, m) in p {
                let an = self.names.name_of_json(&json!(acct));
                let from = self.get("txpool_contentFrom", json!([acct])).ok().cloned().unwrap_or(Value::Null);
                flag!("pool_from", from["pending"].get(acct).or(from["pending"].as_object().and_then(|o| o.values().next())) == Some(m) || m.as_object().map(|o| o.is_empty()).unwrap_or(false),
                      "txpool_contentFrom({}) differs from txpool_content", an);
                for (nonce, t) in m.as_object().cloned().unwrap_or_default() {
                    let id = b256_of(&t["hash"]).map(|h| self.names.tx_token(&h)).unwrap_or("NULL".into());
                    flag!("pool_fields", t["blockNumber"].is_null() && u64_of(&t["nonce"]).map(|x| x.to_string()) == Some(nonce.clone()), "pool entry {}:{}", an, nonce);
                    pool.push(json!({"signer": an, "nonce": nonce.parse::<u64>().unwrap_or(u64::MAX), "id": id}));
                }
            }
        }
        // ---- logs per block (eth_getLogs, one block at a time)
        let mut logs = Vec::new();
        for (h, hashes) in &block_txs {
            let r = self.get("eth_getLogs", json!([{"fromBlock": format!("{}", h), "toBlock": format!("{}", h)}]));
            let mut seq = Vec::new();
            for l in r.ok().and_then(|v| v.as_array().cloned()).unwrap_or_default() {
                let id = b256_of(&l["transactionHash"]).map(|x| self.names.tx_token(&x)).unwrap_or("NULL".into());
                let a = self.names.name_of_json(&l["address"]);
                let t: Vec<Value> = l["topics"].as_array().cloned().unwrap_or_default().iter().map(Self::abs_topic).collect();
                seq.push(json!({"id": id, "li": u64_of(&l["logIndex"]).unwrap_or(u64::MAX), "a": a, "t": t}));
            }
            let _ = hashes;
            logs.push(json!({"h": h, "logs": seq}));
        }
        // ---- ledger (executing queries: only at block boundaries)
        let at_boundary = !self.mid_block;
        if at_boundary {
            let mut bals = Vec::new();
            let mut tks = BTreeSet::new();
            for (tk, spell, holder) in self.u_bal.clone() {
                tks.insert(tk.clone());
                let r = self.get("brc20_balance", json!([names::pkscript(&holder), Self::ticker_real(&spell)]));
                let v = r.ok().and_then(|v| v.as_str().map(|s| s.to_string())).and_then(|s| U256::from_str_radix(s.trim_start_matches("0x"), 16).ok());
                let holder_is_sender = holder.starts_with('s');
                if holder_is_sender {
                    bals.push(json!({"t": tk, "spell": spell, "a": holder, "v": v.map(names::abstract_amount).unwrap_or(json!("ERR"))}));
                }
            }
            let mut supply = Vec::new();
            for tk in tks {
                let (ta, ts, sum_ok) = self.token_supply(&tk);
                supply.push(json!({"t": tk, "tok": ta, "v": ts}));
                let _ = sum_ok;
            }
            self.last_ledger = json!({"bals": bals, "supply": supply});
        }
        json!({
            "height": if height == u64::MAX { json!("ERR") } else { json!(height) },
            "blocks": blocks, "byhash": byhash, "txs": txs, "byidx": byidx, "insc": insc, "cinsc": cinsc,
            "nonces": nonces, "code": code, "cells": cells, "probe": probe, "pool": pool, "logs": logs,
            "ledger": self.last_ledger.clone(), "boundary": at_boundary, "lo": lo,
            "flags": flags, "flagfail": fail,
        })
    }

    fn token_supply(&mut self, tk: &str) -> (String, Value, bool) {
        let data = ctrl_abi::getTickerAddressCall::new((Self::ticker_real(tk).as_bytes().to_vec().into(),)).abi_encode();
        let r = self.get("eth_call", json!([{"to": names::CONTROLLER, "data": hexs(&data)}]));
        let Some(out) = r.ok().and_then(|v| v.as_str().map(|s| s.to_string())) else {
            return ("NULL".into(), json!(0), true);
        };
        let bytes = hex::decode(out.trim_start_matches("0x")).unwrap_or_default();
        if bytes.len() < 32 {
            return ("NULL".into(), json!(0), true);
        }
        let ta = Address::from_slice(&bytes[12..32]);
        if ta.is_zero() {
            return ("NULL".into(), json!(0), true);
        }
        let name = self.names.name(&ta);
        self.u_addr.insert(name.clone());
        let data = tok_abi::totalSupplyCall::new(()).abi_encode();
        let r = self.get("eth_call", json!([{"to": format!("{:#x}", ta), "data": hexs(&data)}]));
        let v = r.ok().and_then(|v| v.as_str().map(|s| s.to_string())).and_then(|s| U256::from_str_radix(s.trim_start_matches("0x"), 16).ok());
        (name, v.map(names::abstract_amount).unwrap_or(json!("ERR")), true)
    }

    fn check_raw(&mut self, h: u64, b: &Value, hashes: &[B256]) -> Result<(), String> {
        use alloy::consensus::{Block, ReceiptWithBloom, TxEnvelope};
        use alloy_rlp::Decodable;
        let raw = self.get("debug_getRawBlock", json!([format!("{}", h)])).ok().cloned().unwrap_or(Value::Null);
        let Some(s) = raw.as_str() else { return Err("no raw block".into()) };
        let bytes = hex::decode(s.trim_start_matches("0x")).map_err(|e| e.to_string())?;
        let blk = Block::<TxEnvelope>::decode(&mut bytes.as_slice()).map_err(|e| format!("decode: {}", e))?;
        if blk.header.number != h || Some(blk.header.parent_hash) != b256_of(&b["parentHash"]) || Some(blk.header.timestamp) != u64_of(&b["timestamp"]) {
            return Err("header fields".into());
        }
        if blk.body.transactions.len() != hashes.len() {
            return Err(format!("{} raw txs vs {}", blk.body.transactions.len(), hashes.len()));
        }
        let rr = self.get("debug_getRawReceipts", json!([format!("{}", h)])).ok().cloned().unwrap_or(Value::Null);
        let rlist = rr.as_array().cloned().ok_or("no raw receipts")?;
        if rlist.len() != hashes.len() {
            return Err(format!("{} raw receipts vs {}", rlist.len(), hashes.len()));
        }
        for (i, x) in hashes.iter().enumerate() {
            let t = self.get("eth_getTransactionByHash", json!([hexs(x.as_slice())])).ok().cloned().unwrap_or(Value::Null);
            let rc = self.get("eth_getTransactionReceipt", json!([hexs(x.as_slice())])).ok().cloned().unwrap_or(Value::Null);
            let TxEnvelope::Legacy(signed) = &blk.body.transactions[i] else { return Err("not legacy".into()) };
            let input = hex::decode(t["input"].as_str().unwrap_or("0x").trim_start_matches("0x")).unwrap_or_default();
            if Some(signed.tx().nonce) != u64_of(&t["nonce"]) || signed.tx().input.as_ref() != input.as_slice() {
                return Err(format!("raw tx {} is not the tx at index {}", i, i));
            }
            let rb = hex::decode(rlist[i].as_str().unwrap_or("0x").trim_start_matches("0x")).map_err(|e| e.to_string())?;
            let r = ReceiptWithBloom::<alloy::consensus::Receipt>::decode(&mut rb.as_slice()).map_err(|e| format!("receipt decode: {}", e))?;
            if Some(r.receipt.cumulative_gas_used) != u64_of(&rc["cumulativeGasUsed"]) || r.receipt.logs.len() != rc["logs"].as_array().map(|a| a.len()).unwrap_or(0) {
                return Err(format!("raw receipt {} is not the receipt at index {}", i, i));
            }
        }
        let hdr = self.get("debug_getRawHeader", json!([format!("{}", h)])).ok().cloned().unwrap_or(Value::Null);
        let mut hb = Vec::new();
        alloy_rlp::Encodable::encode(&blk.header, &mut hb);
        if hdr.as_str().map(|s| s.to_lowercase()) != Some(hexs(&hb)) {
            return Err("raw header differs from the header of the raw block".into());
        }
        Ok(())
    }
}

/// SHA-256 merkle root over the transaction hashes as leaves; an odd node is promoted unchanged
/// (re-implemented here; compared with what the block reports).
/// TraceED::get_opi_string re-derived from the JSON form served by debug_traceTransaction
pub fn opi_string(tr: &Value) -> String {
    let dec = |v: &Value| -> String {
        let s = v.as_str().unwrap_or("0x0").trim_start_matches("0x");
        alloy::primitives::U256::from_str_radix(if s.is_empty() { "0" } else { s }, 16).map(|x| x.to_string()).unwrap_or_else(|_| "?".into())
    };
    let addr = |v: &Value| v.as_str().unwrap_or("").to_lowercase().trim_start_matches("0x").to_string();
    let bytes = |v: &Value| v.as_str().unwrap_or("").to_lowercase().trim_start_matches("0x").to_string();
    let calls: Vec<String> = tr["calls"].as_array().cloned().unwrap_or_default().iter().map(opi_string).collect();
    format!("{};{};{};{};{};{};{};[{}]", tr["type"].as_str().unwrap_or("").to_uppercase(), addr(&tr["from"]),
        if tr["to"].is_null() { String::new() } else { addr(&tr["to"]) }, dec(&tr["gas"]), dec(&tr["gasUsed"]), bytes(&tr["input"]), bytes(&tr["output"]), calls.join(","))
}

pub fn merkle_root(leaves: &[B256]) -> B256 {
    if leaves.is_empty() {
        return B256::ZERO;
    }
    let mut level: Vec<[u8; 32]> = leaves.iter().map(|l| l.0).collect();
    while level.len() > 1 {
        let mut next = Vec::new();
        let mut i = 0;
        while i < level.len() {
            if i + 1 < level.len() {
                let mut cat = level[i].to_vec();
                cat.extend_from_slice(&level[i + 1]);
                let d = sha256::digest(cat.as_slice());
                let mut out = [0u8; 32];
                out.copy_from_slice(&hex::decode(d).unwrap());
                next.push(out);
            } else {
                next.push(level[i]);
            }
            i += 2;
        }
        level = next;
    }
    B256::from(level[0])
}
