//! Lock programs of every RPC handler, recorded from the real code (hook H3) in several engine states (C11).

use serde_json::{json, Value};

use crate::methods::{self, Ctx};
use crate::names;
use crate::player::Player;

fn lock_name(ty: &str) -> &'static str {
    if ty.contains("Brc20ProgDatabase") {
        "db"
    } else if ty.contains("LastBlockInfo") {
        "lbi"
    } else if ty.contains("Brc20ProgConfig") {
        "config"
    } else {
        "other"
    }
}

pub const STATES: &[&str] = &["empty", "init", "midblock", "parked", "uncommitted", "expired"];

/// Brings a fresh instance into the named state; returns the context for well-formed requests.
pub fn build_state(p: &mut Player, state: &str) -> Ctx {
    let mut ctx = Ctx::dummy();
    let cell_ops = json!([{"op": "sstore", "s": 5, "v": 7}, {"op": "log", "t": [1]}]);
    let mut steps: Vec<Value> = Vec::new();
    if state != "empty" {
        steps.push(json!({"op": "init", "hash": "h100", "ts": 100, "height": 0}));
        steps.push(json!({"op": "tx", "via": "deploy", "from": "s1", "to": "NULL", "ckind": "cell", "insc": "ia", "idx": 0, "hash": "h1", "ts": 101, "gas": "ample", "txid": "x1"}));
        steps.push(json!({"op": "tx", "via": "call", "from": "s1", "to": "c_s1_0", "ops": cell_ops, "insc": "ib", "idx": 1, "hash": "h1", "ts": 101, "gas": "ample", "txid": "x2"}));
        steps.push(json!({"op": "tx", "via": "deposit", "holder": "s1", "ticker": "ordi", "amt": 9, "insc": "ic", "idx": 2, "hash": "h1", "ts": 101}));
        steps.push(json!({"op": "finalise", "ts": 101, "hash": "h1", "count": 3}));
        steps.push(json!({"op": "commit"}));
    }
    if state == "uncommitted" || state == "parked" || state == "midblock" || state == "expired" {
        steps.push(json!({"op": "tx", "via": "call", "from": "s1", "to": "c_s1_0", "ops": cell_ops, "insc": "id", "idx": 0, "hash": "h2", "ts": 102, "gas": "ample", "txid": "x3"}));
        steps.push(json!({"op": "finalise", "ts": 102, "hash": "h2", "count": 1}));
    }
    if state == "parked" || state == "expired" {
        steps.push(json!({"op": "transact", "signer": "k1", "nonce": 1, "to": "c_s1_0", "ops": cell_ops, "chain": "own", "insc": "ie", "idx": 0, "hash": "h3", "ts": 103, "txid": "x4"}));
        steps.push(json!({"op": "transact", "signer": "k1", "nonce": 2, "to": "c_s1_0", "ops": cell_ops, "chain": "own", "insc": "if", "idx": 0, "hash": "h3", "ts": 103, "txid": "x5"}));
    }
    if state == "expired" {
        // the entries parked while block 3 was next are still listed but too old to run when block 13 is next
        steps.push(json!({"op": "mine", "k": 10, "ts": 104}));
    }
    if state == "midblock" {
        steps.push(json!({"op": "tx", "via": "call", "from": "s1", "to": "c_s1_0", "ops": cell_ops, "insc": "ig", "idx": 0, "hash": "h3", "ts": 103, "gas": "ample", "txid": "x6"}));
    }
    let mut last_rc: Option<Value> = None;
    let saved_light = p.light_obs;
    for s in &steps {
        let ev = p.step_noobs(s);
        if ev["rc"].is_object() {
            last_rc = Some(ev["rc"].clone());
        }
    }
    p.light_obs = saved_light;
    if state != "empty" {
        ctx.contract = format!("{:#x}", p.names.addr("c_s1_0").unwrap());
        ctx.insc = "ib".into();
        if let Some(rc) = last_rc {
            if let Some(id) = rc["id"].as_str() {
                if let Some(h) = p.names.tok_tx.get(id) {
                    ctx.tx_hash = format!("{:#x}", h);
                }
            }
        }
        ctx.block_hash = format!("{:#x}", names::hash_of_token("h1", 0));
        ctx.height = if state == "init" { 1 } else if state == "expired" { 12 } else { 2 };
        ctx.next_hash = format!("{:#x}", names::hash_of_token("h3", 0));
        ctx.next_ts = 103;
        ctx.next_idx = if state == "midblock" { 1 } else { 0 };
    } else {
        ctx.next_hash = format!("{:#x}", names::hash_of_token("h100", 0));
        ctx.height = 0;
    }
    // a signed transaction with the signer's next nonce (drains the parked ones in state "parked")
    let raw = p.raw_tx_public(&json!({"signer": "k1", "nonce": 0, "to": "c_s1_0", "ops": cell_ops, "chain": "own"}));
    ctx.raw_tx = format!("0x{}", hex::encode(raw));
    ctx.signer = format!("{:#x}", p.names.addr("k1").unwrap());
    ctx
}

pub fn record(out_path: &str, only_state: Option<&str>) -> i32 {
    let rt = crate::inst::runtime();
    let mut rows = Vec::new();
    let probe_dir = tempfile::TempDir::new().unwrap();
    let method_list = {
        let p = Player::new(rt.clone(), probe_dir.path(), "regtest", true).unwrap();
        let l = p.inst.method_names();
        drop(p);
        l
    };
    for state in STATES {
        if let Some(o) = only_state {
            if o != *state {
                continue;
            }
        }
        for method in &method_list {
            let dir = tempfile::TempDir::new().unwrap();
            let mut p = match Player::new(rt.clone(), dir.path(), "regtest", true) {
                Ok(p) => p,
                Err(e) => {
                    eprintln!("open: {}", e);
                    return 2;
                }
            };
            let ctx = build_state(&mut p, state);
            let mut variants = vec![methods::params(method, &ctx)];
            if method == "brc20_initialise" {
                variants.push(json!([ctx.block_hash, 101, 1])); // same genesis again
            }
            if method == "eth_getBlockByHash" {
                variants.push(json!([ctx.block_hash, false]));
            }
            if method == "brc20_reorg" {
                variants.push(json!([ctx.height]));
            }
            if method == "debug_getRawHeader" {
                variants.push(json!([ctx.block_hash]));
            }
            // every class of every parameter (the partition of RpcSurface.tla): an omitted optional parameter, another
            // block tag, a filter without bounds ... may take another path through the locks.  Read-only methods run them
            // all on this instance; a mutating method gets the "absent"/"null" classes only
            let mutating = methods::MUTATING.contains(&method.as_str());
            // (mid-block every simulation waits 5 s for the block to end and fails without touching a lock: base variant only)
            let with_classes = *state != "midblock" && *state != "expired";
            for (pi, (_, ty)) in crate::surface::schema(method).iter().enumerate() {
                if !with_classes {
                    break;
                }
                for class in crate::surface::classes(ty) {
                    if mutating && class != "absent" && class != "null" {
                        continue;
                    }
                    if matches!(class, "bomb" | "big" | "huge" | "hugeto" | "hugeboth" | "many" | "bigcalldata" | "burnall") {
                        continue;
                    }
                    if let Some(pv) = crate::surface::params_for(method, pi, class, &ctx) {
                        variants.push(pv);
                    }
                }
            }
            p.inst.timeout = std::time::Duration::from_secs(25);
            for (vi, params) in variants.into_iter().enumerate() {
                brc20_prog::verif::lock_trace_start(None);
                let _ = brc20_prog::verif::lock_trace_take();
                let r = p.inst.call(method, params);
                let evs = brc20_prog::verif::lock_trace_stop();
                let hung = matches!(r, crate::inst::Outcome::Timeout);
                let mut prog: Vec<Value> = evs
                    .iter()
                    .filter(|e| !e.kind.starts_with("Req"))
                    .map(|e| json!([e.kind, lock_name(e.lock)]))
                    .collect();
                if hung {
                    // the handler never came back: what it was waiting for is its last request without an acquisition;
                    // the program ends there, holding what it holds (Locks.tla then finds the thread stuck on its own)
                    if let Some(last) = evs.last() {
                        if last.kind.starts_with("Req") {
                            prog.push(json!([last.kind.replace("Req", "Acq"), lock_name(last.lock)]));
                        }
                    }
                }
                let locs: Vec<String> = evs.iter().filter(|e| e.kind.starts_with("Acq")).map(|e| e.loc.replace("/repo/", "")).collect();
                rows.push(json!({"state": state, "method": method, "variant": vi, "res": r.res(), "program": prog, "locs": locs, "hung": hung}));
                if hung {
                    // this instance is wedged now; do not even try to close it
                    std::mem::forget(p.inst.methods.take());
                    break;
                }
            }
            p.inst.close();
        }
    }
    std::fs::write(out_path, serde_json::to_string(&json!({"rows": rows})).unwrap()).unwrap();
    if rows.iter().any(|r| r["hung"] == json!(true)) {
        // a handler that never returned still sits on a runtime worker thread: an orderly shutdown would wait for it for ever
        std::process::exit(0);
    }
    0
}
