//! Abstract names <-> concrete values.  All derivations here are the harness's own (keccak of the
//! pkscript, CREATE address from sender and nonce, token patterns), independent of the code under test.

use std::collections::HashMap;

use alloy::primitives::{keccak256, Address, B256, U256};
use alloy_signer_local::PrivateKeySigner;

pub const INDEXER: &str = "0x0000000000000000000000000000000000003ca6";
pub const CONTROLLER: &str = "0xc54dd4581af2dbf18e4d90840226756e9d2b3cdb";
pub const DEAD: &str = "0x000000000000000000000000000000000000dead";
pub const MAXV: u64 = 1_000_000_000;

pub struct Names {
    pub addr_name: HashMap<Address, String>,
    pub name_addr: HashMap<String, Address>,
    pub tx_tok: HashMap<B256, String>,
    pub tok_tx: HashMap<String, B256>,
    pub derive_bases: Vec<String>,
}

pub fn pkscript(name: &str) -> String {
    // s1 -> 5120 0101..01 (34 bytes, taproot-like); the number is the fill byte
    let n: u8 = name.trim_start_matches('s').parse().unwrap_or(0);
    format!("5120{}", hex::encode([n; 32]))
}

pub fn signer_key(name: &str) -> PrivateKeySigner {
    let n: u8 = name.trim_start_matches('k').parse().unwrap_or(0);
    let mut k = [0x11u8; 32];
    k[31] = n;
    PrivateKeySigner::from_bytes(&k.into()).unwrap()
}

pub fn hash_of_token(tok: &str, height_for_zero: u64) -> B256 {
    let _ = height_for_zero;
    if tok == "zero" {
        return B256::ZERO;
    }
    if let Some(n) = tok.strip_prefix('h') {
        let n: u64 = n.parse().unwrap_or(0);
        let mut b = [0u8; 32];
        b[0] = 0xaa;
        b[24..32].copy_from_slice(&n.to_be_bytes());
        return B256::from(b);
    }
    if let Some(n) = tok.strip_prefix('g') {
        let n: u64 = n.parse().unwrap_or(0);
        let mut b = [0u8; 32];
        b[24..32].copy_from_slice(&(n + 1).to_be_bytes());
        return B256::from(b);
    }
    B256::repeat_byte(0xee)
}

pub fn token_of_hash(h: &B256) -> String {
    if h.is_zero() {
        return "zero".into();
    }
    let b = h.as_slice();
    if b[0] == 0xaa && b[1..24].iter().all(|x| *x == 0) {
        let n = u64::from_be_bytes(b[24..32].try_into().unwrap());
        return format!("h{}", n);
    }
    if b[0..24].iter().all(|x| *x == 0) {
        let n = u64::from_be_bytes(b[24..32].try_into().unwrap());
        return format!("g{}", n.wrapping_sub(1));
    }
    format!("?{}", hex::encode(&b[0..6]))
}

pub fn txid_of_token(tok: &str) -> B256 {
    if tok == "zero" {
        return B256::ZERO;
    }
    let n: u64 = tok.trim_start_matches('x').parse().unwrap_or(0);
    let mut b = [0u8; 32];
    b[0] = 0x77;
    b[24..32].copy_from_slice(&n.to_be_bytes());
    B256::from(b)
}

pub fn token_of_txid(h: &B256) -> String {
    if h.is_zero() {
        return "zero".into();
    }
    let b = h.as_slice();
    if b[0] == 0x77 && b[1..24].iter().all(|x| *x == 0) {
        return format!("x{}", u64::from_be_bytes(b[24..32].try_into().unwrap()));
    }
    format!("?{}", hex::encode(&b[0..6]))
}

/// amount embedding: small values as they are, MAXV - j as 2^256-1-j
pub fn amount_of(v: u64) -> U256 {
    if v > MAXV / 2 {
        U256::MAX - U256::from(MAXV - v)
    } else {
        U256::from(v)
    }
}

pub fn abstract_amount(v: U256) -> serde_json::Value {
    if v <= U256::from(MAXV / 2) {
        return serde_json::json!(v.as_limbs()[0]);
    }
    let d = U256::MAX - v;
    if d <= U256::from(MAXV / 2) {
        return serde_json::json!(MAXV - d.as_limbs()[0]);
    }
    serde_json::json!(format!("?{}", v))
}

impl Names {
    pub fn new() -> Self {
        let mut n = Names {
            addr_name: HashMap::new(),
            name_addr: HashMap::new(),
            tx_tok: HashMap::new(),
            tok_tx: HashMap::new(),
            derive_bases: Vec::new(),
        };
        n.bind("idx", INDEXER.parse().unwrap());
        n.bind("ctrl", CONTROLLER.parse().unwrap());
        n.bind("dead", DEAD.parse().unwrap());
        n.bind("zero", Address::ZERO);
        for i in 1..=6 {
            let name = format!("s{}", i);
            let pk = hex::decode(pkscript(&name)).unwrap();
            let h = keccak256(pk);
            n.bind(&name, Address::from_slice(&h[12..]));
        }
        for i in 1..=4 {
            let name = format!("k{}", i);
            let a = signer_key(&name).address();
            n.bind(&name, a);
        }
        n
    }

    pub fn bind(&mut self, name: &str, a: Address) {
        self.addr_name.insert(a, name.to_string());
        self.name_addr.insert(name.to_string(), a);
        self.derive_bases.push(name.to_string());
    }

    /// name -> address; `c_<base>_<n>` names are derived on demand
    pub fn addr(&mut self, name: &str) -> Option<Address> {
        if let Some(a) = self.name_addr.get(name) {
            return Some(*a);
        }
        if let Some(rest) = name.strip_prefix("c_") {
            let pos = rest.rfind('_')?;
            let base = &rest[..pos];
            let nonce: u64 = rest[pos + 1..].parse().ok()?;
            let b = self.addr(base)?;
            let a = b.create(nonce);
            self.bind(name, a);
            return Some(a);
        }
        if let Some(h) = name.strip_prefix("0x") {
            let _ = h;
            return name.parse().ok();
        }
        None
    }

    /// address -> name; unknown addresses are searched as CREATE children of every known one
    pub fn name(&mut self, a: &Address) -> String {
        if let Some(n) = self.addr_name.get(a) {
            return n.clone();
        }
        let bases = self.derive_bases.clone();
        for base in bases {
            let b = self.name_addr[&base];
            for nonce in 0..40u64 {
                if b.create(nonce) == *a {
                    let nm = format!("c_{}_{}", base, nonce);
                    self.bind(&nm, *a);
                    return nm;
                }
            }
        }
        format!("?{}", hex::encode(&a.as_slice()[0..6]))
    }

    pub fn name_of_json(&mut self, v: &serde_json::Value) -> String {
        match v.as_str() {
            None => "NULL".into(),
            Some(s) => match s.parse::<Address>() {
                Ok(a) => self.name(&a),
                Err(_) => format!("?{}", s),
            },
        }
    }

    pub fn tx_token(&mut self, h: &B256) -> String {
        if let Some(t) = self.tx_tok.get(h) {
            return t.clone();
        }
        let t = format!("t{}", self.tx_tok.len() + 1);
        self.tx_tok.insert(*h, t.clone());
        self.tok_tx.insert(t.clone(), *h);
        t
    }
}
