//! C02: the same schedule on three instances - two in this process (one of them restarted right after a commit),
//! one in a child process - and the raw answers of every call and every projection query compared bytewise
//! (object keys sorted, mineTimestamp zeroed).

use std::io::BufRead;

use serde_json::{json, Value};

use crate::player::Player;

pub struct RunDigests {
    pub per_event: Vec<String>,
    pub raw: Vec<Vec<String>>,
}

pub fn play_digest(steps: &[Value], restart_after_commit: bool, keep_raw: bool) -> Result<RunDigests, String> {
    let rt = crate::inst::runtime();
    let dir = tempfile::TempDir::new().unwrap();
    let mut p = Player::new(rt, dir.path(), "regtest", true)?;
    p.digest_on = true;
    p.keep_raw = keep_raw;
    let mut out = RunDigests { per_event: Vec::new(), raw: Vec::new() };
    let mut restarted = false;
    for (i, s) in steps.iter().enumerate() {
        p.raw.clear();
        let ev = p.step(s);
        out.per_event.push(p.digest.clone());
        if keep_raw {
            out.raw.push(p.raw.clone());
        }
        if restart_after_commit && !restarted && 2 * i >= steps.len() && s["op"] == json!("commit") && ev["res"] == json!("ok") {
            // a restart right after a commit preserves the state; its own answer is not part of the comparison
            p.digest_on = false;
            let _ = p.inst.reopen();
            p.mid_block = false;
            p.digest_on = true;
            restarted = true;
        }
    }
    p.inst.close();
    Ok(out)
}

/// The pinned digest of a schedule: the answers of the indexer calls themselves plus a fixed final sweep over every
/// block (full block, raw block, raw receipts, trace string and hash, logs) and the pool.  Independent of how the
/// harness's projection evolves.
pub fn golden_digest(steps: &[Value]) -> Result<String, String> {
    let rt = crate::inst::runtime();
    let dir = tempfile::TempDir::new().unwrap();
    let mut p = Player::new(rt, dir.path(), "regtest", true)?;
    p.digest_on = true;
    p.digest_mutating_only = true;
    for s in steps {
        let _ = p.step_noobs(s);
    }
    p.digest_mutating_only = false;
    let h = p.rpc("eth_blockNumber", json!([])).ok().and_then(|v| v.as_str().and_then(|s| u64::from_str_radix(s.trim_start_matches("0x"), 16).ok())).unwrap_or(0);
    for b in 0..=h {
        let n = format!("{}", b);
        for (m, params) in [
            ("eth_getBlockByNumber", json!([n, true])),
            ("debug_getRawBlock", json!([n])),
            ("debug_getRawReceipts", json!([n])),
            ("debug_getBlockTraceString", json!([n])),
            ("debug_getBlockTraceHash", json!([n])),
            ("eth_getLogs", json!([{"fromBlock": n, "toBlock": n}])),
        ] {
            let _ = p.rpc(m, params);
        }
    }
    let _ = p.rpc("txpool_content", json!([]));
    let d = p.digest.clone();
    p.inst.close();
    Ok(d)
}

pub fn golden(sched_path: &str, out_path: &str) -> i32 {
    let f = std::fs::File::open(sched_path).expect("schedules");
    let mut map = serde_json::Map::new();
    for line in std::io::BufReader::new(f).lines() {
        let line = line.unwrap();
        if line.trim().is_empty() {
            continue;
        }
        let sched: Value = serde_json::from_str(&line).expect("json");
        let steps = sched["steps"].as_array().cloned().unwrap_or_default();
        match golden_digest(&steps) {
            Ok(d) => {
                map.insert(format!("{}", sched["run"]), json!(d));
            }
            Err(e) => {
                eprintln!("{}", e);
                return 2;
            }
        }
    }
    std::fs::write(out_path, serde_json::to_string(&Value::Object(map)).unwrap()).unwrap();
    0
}

pub fn child(sched_path: &str) -> i32 {
    let text = std::fs::read_to_string(sched_path).expect("schedule");
    let sched: Value = serde_json::from_str(&text).expect("json");
    let steps = sched["steps"].as_array().cloned().unwrap_or_default();
    match play_digest(&steps, false, false) {
        Ok(d) => {
            println!("{}", json!({"per_event": d.per_event}));
            0
        }
        Err(e) => {
            eprintln!("{}", e);
            2
        }
    }
}

pub fn run(sched_path: &str, out_path: &str) -> i32 {
    let f = std::fs::File::open(sched_path).expect("schedules");
    let exe = std::env::current_exe().unwrap();
    let mut violations = Vec::new();
    let mut runs = 0u64;
    let mut events = 0u64;
    let mut finals = Vec::new();
    for line in std::io::BufReader::new(f).lines() {
        let line = line.unwrap();
        if line.trim().is_empty() {
            continue;
        }
        let sched: Value = serde_json::from_str(&line).expect("json");
        let steps = sched["steps"].as_array().cloned().unwrap_or_default();
        let a = match play_digest(&steps, false, true) {
            Ok(x) => x,
            Err(e) => {
                eprintln!("{}", e);
                return 2;
            }
        };
        let b = match play_digest(&steps, true, true) {
            Ok(x) => x,
            Err(e) => {
                eprintln!("{}", e);
                return 2;
            }
        };
        let tmp = tempfile::NamedTempFile::new().unwrap();
        std::fs::write(tmp.path(), &line).unwrap();
        let outp = std::process::Command::new(&exe).arg("replica-child").arg(tmp.path()).output().expect("child");
        let c: Value = serde_json::from_slice(outp.stdout.split(|b| *b == b'\n').filter(|l| !l.is_empty()).last().unwrap_or(b"{}")).unwrap_or(Value::Null);
        let cd: Vec<String> = c["per_event"].as_array().cloned().unwrap_or_default().iter().map(|x| x.as_str().unwrap_or("").to_string()).collect();
        runs += 1;
        events += steps.len() as u64;
        finals.push(json!({"run": sched["run"], "digest": a.per_event.last()}));
        let first_diff = |x: &Vec<String>, y: &Vec<String>| -> Option<usize> {
            for i in 0..x.len().max(y.len()) {
                if x.get(i) != y.get(i) {
                    return Some(i);
                }
            }
            None
        };
        if let Some(i) = first_diff(&a.per_event, &b.per_event) {
            // which answer differs?
            let (ra, rb) = (&a.raw[i.min(a.raw.len() - 1)], &b.raw[i.min(b.raw.len() - 1)]);
            let mut detail = json!("length");
            for k in 0..ra.len().min(rb.len()) {
                if ra[k] != rb[k] {
                    detail = json!({"a": ra[k].chars().take(600).collect::<String>(), "b": rb[k].chars().take(600).collect::<String>()});
                    break;
                }
            }
            violations.push(json!({"run": sched["run"], "pair": "in-process vs restarted-after-commit", "event": i, "step": steps.get(i), "detail": detail, "schedule": steps}));
        } else if let Some(i) = first_diff(&a.per_event, &cd) {
            violations.push(json!({"run": sched["run"], "pair": "in-process vs child process", "event": i, "step": steps.get(i), "detail": "digest", "schedule": steps}));
        }
    }
    let bad = !violations.is_empty();
    std::fs::write(out_path, serde_json::to_string(&json!({"runs": runs, "events": events, "violations": violations, "finals": finals})).unwrap()).unwrap();
    if bad { 1 } else { 0 }
}
