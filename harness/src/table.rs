//! C13 (ii): schedules of TableRef.tla executed on the real BlockCachedDatabase (hook H1 re-exports), with the expected
//! reads of the plain-map model compared after every step: point reads, every range scan over boundary keys, full scan.

use std::io::BufRead;
use std::panic::{catch_unwind, AssertUnwindSafe};

use brc20_prog::types::{U128ED, U64ED};
use brc20_prog::verif::{BlockCachedDatabase, BlockHistoryCacheData};
use serde_json::{json, Value};

type T = BlockCachedDatabase<U128ED, U64ED, BlockHistoryCacheData<U64ED>>;

const KEYS: [u128; 6] = [255, 256, 65535, 65536, 1u128 << 64, (1u128 << 64) | 1];

fn bounds() -> Vec<u128> {
    vec![0, 255, 256, 257, 65535, 65536, 65537, 1u128 << 64, (1u128 << 64) + 1, (1u128 << 64) + 2, u128::MAX]
}

fn key_of(name: &str) -> u128 {
    let i: usize = name.trim_start_matches('k').parse().unwrap_or(1);
    KEYS[(i - 1).min(5)]
}

fn val(x: &U64ED) -> u64 {
    x.uint.as_limbs()[0]
}

fn check_reads(t: &T, expect: &[u64]) -> Result<(), String> {
    for (i, k) in KEYS.iter().enumerate() {
        let got = t.latest(&U128ED::from(*k)).map_err(|e| e.to_string())?.map(|v| val(&v)).unwrap_or(0);
        if got != expect[i] {
            return Err(format!("latest(k{}) = {} expected {}", i + 1, got, expect[i]));
        }
    }
    let b = bounds();
    for x in 0..b.len() {
        for y in (x + 1)..b.len() {
            let (lo, hi) = (b[x], b[y]);
            let got: Vec<(u128, u64)> = t
                .get_range(&U128ED::from(lo), &U128ED::from(hi))
                .map_err(|e| e.to_string())?
                .iter()
                .map(|(k, v)| {
                    let l = k.uint.as_limbs();
                    (((l[1] as u128) << 64) | l[0] as u128, val(v))
                })
                .collect();
            let want: Vec<(u128, u64)> = KEYS.iter().enumerate().filter(|(i, k)| **k >= lo && **k < hi && expect[*i] != 0).map(|(i, k)| (*k, expect[i])).collect();
            if got != want {
                return Err(format!("get_range({}, {}) = {:?} expected {:?}", lo, hi, got, want));
            }
        }
    }
    let mut all: Vec<(u128, u64)> = t.all().map_err(|e| e.to_string())?.iter().map(|(k, v)| {
        let l = k.uint.as_limbs();
        (((l[1] as u128) << 64) | l[0] as u128, val(v))
    }).collect();
    all.sort();
    let want: Vec<(u128, u64)> = KEYS.iter().enumerate().filter(|(i, _)| expect[*i] != 0).map(|(i, k)| (*k, expect[i])).collect();
    if all != want {
        return Err(format!("all() = {:?} expected {:?}", all, want));
    }
    Ok(())
}

pub fn run(sched_path: &str, out_path: &str) -> i32 {
    let f = std::fs::File::open(sched_path).expect("schedules");
    let mut violations = Vec::new();
    let mut runs = 0u64;
    let mut steps_n = 0u64;
    let mut crashes = 0u64;
    let mut crashes_hit = 0u64;
    let mut samples = Vec::new();
    for line in std::io::BufReader::new(f).lines() {
        let line = line.unwrap();
        if line.trim().is_empty() {
            continue;
        }
        let sched: Value = serde_json::from_str(&line).expect("json");
        let steps = sched["steps"].as_array().cloned().unwrap_or_default();
        let dir = tempfile::TempDir::new().unwrap();
        let mut t: Option<T> = Some(T::new(dir.path(), "tbl").unwrap());
        runs += 1;
        if samples.len() < 2 {
            samples.push(json!(steps.iter().take(10).collect::<Vec<_>>()));
        }
        for (si, st) in steps.iter().enumerate() {
            steps_n += 1;
            let op = st["op"].as_str().unwrap_or("");
            let res: Result<(), String> = catch_unwind(AssertUnwindSafe(|| -> Result<(), String> {
                match op {
                    "write" => {
                        let k = U128ED::from(key_of(st["k"].as_str().unwrap_or("k1")));
                        let b = st["b"].as_u64().unwrap_or(0);
                        let v = st["v"].as_u64().unwrap_or(0);
                        let tt = t.as_mut().unwrap();
                        if v == 0 { tt.unset(b, &k).map_err(|e| e.to_string()) } else { tt.set(b, &k, U64ED::from(v)).map_err(|e| e.to_string()) }
                    }
                    "advance" => Ok(()),
                    "commit" => t.as_mut().unwrap().commit(st["at"].as_u64().unwrap_or(0)).map_err(|e| e.to_string()),
                    "clear" => {
                        t.as_mut().unwrap().clear_cache();
                        Ok(())
                    }
                    "reopen" => {
                        drop(t.take());
                        t = Some(T::new(dir.path(), "tbl").map_err(|e| e.to_string())?);
                        Ok(())
                    }
                    "reorg" => t.as_mut().unwrap().reorg(st["n"].as_u64().unwrap_or(0)).map_err(|e| e.to_string()),
                    "crash_commit" | "crash_reorg" => {
                        crashes += 1;
                        brc20_prog::verif::persist_start(Some(st["j"].as_u64().unwrap_or(1)), false);
                        let r = if op == "crash_commit" {
                            t.as_mut().unwrap().commit(st["at"].as_u64().unwrap_or(0))
                        } else {
                            t.as_mut().unwrap().reorg(st["n"].as_u64().unwrap_or(0))
                        };
                        let _ = brc20_prog::verif::persist_stop();
                        if r.is_err() {
                            crashes_hit += 1;
                        }
                        drop(t.take());
                        t = Some(T::new(dir.path(), "tbl").map_err(|e| e.to_string())?);
                        Ok(())
                    }
                    _ => Ok(()),
                }
            }))
            .unwrap_or_else(|_| Err("panicked".to_string()));
            let mut why = res.err();
            if why.is_none() {
                if let Some(exp) = st["reads"].as_array() {
                    let e: Vec<u64> = exp.iter().map(|x| x.as_u64().unwrap_or(0)).collect();
                    if let Some(tt) = t.as_ref() {
                        why = check_reads(tt, &e).err();
                    }
                }
            }
            if let Some(w) = why {
                if violations.len() < 20 {
                    violations.push(json!({"run": sched["run"], "step": si, "op": st, "why": w, "schedule": steps}));
                }
                break;
            }
        }
        drop(t.take());
    }
    let bad = !violations.is_empty();
    std::fs::write(out_path, serde_json::to_string(&json!({"runs": runs, "steps": steps_n, "crash_steps": crashes, "crashes_that_hit_a_write": crashes_hit,
        "violations": violations, "samples": samples})).unwrap()).unwrap();
    if bad { 1 } else { 0 }
}
