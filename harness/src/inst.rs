//! One real engine instance behind its real RPC method table (hook H1), driven with raw JSON.

use std::path::{Path, PathBuf};
use std::sync::Arc;
use std::time::Duration;

use brc20_prog::verif;
use brc20_prog::Brc20ProgConfig;
use jsonrpsee::server::Methods;
use serde_json::{json, Value};
use tokio::runtime::Runtime;

#[derive(Debug, Clone)]
pub enum Outcome {
    Ok(Value),
    Err { code: i64, message: String, data: Option<Value> },
    Panic(String),
    Timeout,
}

impl Outcome {
    pub fn is_ok(&self) -> bool {
        matches!(self, Outcome::Ok(_))
    }
    pub fn ok(&self) -> Option<&Value> {
        match self {
            Outcome::Ok(v) => Some(v),
            _ => None,
        }
    }
    pub fn res(&self) -> &'static str {
        match self {
            Outcome::Ok(_) => "ok",
            Outcome::Err { message, .. } => {
                if message.contains("Bitcoin RPC status check failed") {
                    "enverr"
                } else {
                    "err"
                }
            }
            Outcome::Panic(_) => "panic",
            Outcome::Timeout => "timeout",
        }
    }
    pub fn err_text(&self) -> String {
        match self {
            Outcome::Ok(_) => String::new(),
            Outcome::Err { message, data, .. } => format!("{} {:?}", message, data),
            Outcome::Panic(m) => format!("PANIC {}", m),
            Outcome::Timeout => "TIMEOUT".into(),
        }
    }
}

pub fn config(network: &str, traces: bool, dir: &Path) -> Brc20ProgConfig {
    let chain_id = if network == "bitcoin" || network == "mainnet" {
        0x4252433230u64
    } else {
        0x425243323073u64
    };
    Brc20ProgConfig {
        brc20_prog_rpc_server_url: "127.0.0.1:0".into(),
        brc20_prog_rpc_server_enable_auth: false,
        brc20_prog_rpc_server_user: None,
        brc20_prog_rpc_server_password: None,
        evm_record_traces: traces,
        evm_call_gas_limit: 1_000_000_000,
        bitcoin_rpc_url: "http://127.0.0.1:1".into(),
        bitcoin_rpc_user: "u".into(),
        bitcoin_rpc_password: "p".into(),
        bitcoin_rpc_network: network.into(),
        chain_id,
        fail_on_bitcoin_rpc_error: false,
        db_path: dir.to_str().unwrap().into(),
        max_request_size: 10 * 1024 * 1024,
        max_response_size: 100 * 1024 * 1024,
        batch_request_limit: 50,
    }
}

pub struct Instance {
    pub dir: PathBuf,
    pub methods: Option<Methods>,
    pub rt: Arc<Runtime>,
    pub timeout: Duration,
    pub calls: u64,
    pub panics: u64,
    pub timeouts: u64,
}

pub fn runtime() -> Arc<Runtime> {
    Arc::new(
        tokio::runtime::Builder::new_multi_thread()
            .worker_threads(4)
            .enable_all()
            .build()
            .unwrap(),
    )
}

impl Instance {
    pub fn open(rt: Arc<Runtime>, dir: &Path) -> Result<Self, String> {
        let methods = verif::open_rpc_module(dir).map_err(|e| e.to_string())?;
        Ok(Instance {
            dir: dir.to_path_buf(),
            methods: Some(methods),
            rt,
            timeout: Duration::from_secs(60),
            calls: 0,
            panics: 0,
            timeouts: 0,
        })
    }

    /// Drop the engine (closes every RocksDB handle) and open the directory again.
    pub fn reopen(&mut self) -> Result<(), String> {
        self.close();
        let methods = verif::open_rpc_module(&self.dir).map_err(|e| e.to_string())?;
        self.methods = Some(methods);
        Ok(())
    }

    pub fn close(&mut self) {
        if let Some(m) = self.methods.take() {
            drop(m);
        }
        // give RocksDB background threads a moment to release the LOCK files
        std::thread::sleep(Duration::from_millis(5));
    }

    pub fn method_names(&self) -> Vec<String> {
        let mut v: Vec<String> = self
            .methods
            .as_ref()
            .unwrap()
            .method_names()
            .map(|s| s.to_string())
            .collect();
        v.sort();
        v
    }

    /// One request as raw JSON text (so ill-typed parameters are possible), on its own task.
    pub fn call_raw(&mut self, request: String) -> Outcome {
        self.calls += 1;
        let methods = self.methods.as_ref().expect("instance is open").clone();
        let to = self.timeout;
        // the watchdog runs on the calling thread: a handler that blocks its worker thread synchronously (a std lock it can
        // never get) cannot keep the timer from firing
        let handle = self.rt.spawn(async move {
            match methods.raw_json_request(&request, 1).await {
                Err(e) => Ok(Err(format!("request did not parse: {}", e))),
                Ok((resp, _rx)) => Ok(Ok(resp.get().to_string())),
            }
        });
        let joined: Result<Result<Result<String, String>, String>, tokio::task::JoinError> =
            match self.rt.block_on(async { tokio::time::timeout(to, handle).await }) {
                Err(_) => Ok(Err("timeout".to_string())),
                Ok(j) => j,
            };
        match joined {
            Err(e) => {
                self.panics += 1;
                let msg = if e.is_panic() {
                    let p = e.into_panic();
                    if let Some(s) = p.downcast_ref::<String>() {
                        s.clone()
                    } else if let Some(s) = p.downcast_ref::<&str>() {
                        s.to_string()
                    } else {
                        "panic".to_string()
                    }
                } else {
                    "cancelled".to_string()
                };
                Outcome::Panic(msg)
            }
            Ok(Err(_)) => {
                self.timeouts += 1;
                Outcome::Timeout
            }
            Ok(Ok(Err(e))) => Outcome::Err { code: -32700, message: e, data: None },
            Ok(Ok(Ok(text))) => {
                let v: Value = serde_json::from_str(&text).unwrap_or(Value::Null);
                if let Some(err) = v.get("error") {
                    Outcome::Err {
                        code: err.get("code").and_then(|c| c.as_i64()).unwrap_or(0),
                        message: err.get("message").and_then(|c| c.as_str()).unwrap_or("").to_string(),
                        data: err.get("data").cloned(),
                    }
                } else {
                    Outcome::Ok(v.get("result").cloned().unwrap_or(Value::Null))
                }
            }
        }
    }

    pub fn call(&mut self, method: &str, params: Value) -> Outcome {
        let req = json!({"jsonrpc": "2.0", "id": 1, "method": method, "params": params});
        self.call_raw(req.to_string())
    }
}
