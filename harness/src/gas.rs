//! C16 driver: for each program, eth_call + eth_estimateGas at a committed state, then the same call as a transaction
//! at a set of inscription lengths around the estimate; every attempt starts from the same committed state
//! (brc20_clearCaches in between).  Emits the events TraceGas.tla consumes.

use std::io::Write;

use rand::rngs::StdRng;
use rand::{Rng, SeedableRng};
use serde_json::{json, Value};

use crate::names;
use crate::player::Player;

fn u64_of(v: &Value) -> Option<u64> {
    u64::from_str_radix(v.as_str()?.trim_start_matches("0x"), 16).ok()
}

fn programs(n: usize, seed: u64) -> Vec<Value> {
    let mut v = vec![
        json!([]),
        json!([{"op": "sstore", "s": 1, "v": 1}]),
        json!([{"op": "burn", "n": 1}]),
        json!([{"op": "burn", "n": 7}, {"op": "sstore", "s": 2, "v": 5}]),
        json!([{"op": "sstore", "s": 1, "v": 1}, {"op": "sstore", "s": 2, "v": 2}, {"op": "sstore", "s": 3, "v": 3}, {"op": "ret", "s": 2}]),
        json!([{"op": "create"}, {"op": "log", "t": [1, 2]}]),
        json!([{"op": "static", "a": 4, "data": "aabbcc"}, {"op": "ret", "s": 241}]),
        json!([{"op": "static", "a": 2, "data": "00112233445566778899"}, {"op": "burn", "n": 3}]),
        json!([{"op": "static", "a": 250, "data": "cdd26b9c"}]),
        json!([{"op": "burn", "n": 40}]),
        json!([{"op": "log", "t": [1, 2, 3, 4]}, {"op": "log", "t": []}, {"op": "create"}, {"op": "create"}]),
        json!([{"op": "sstore", "s": 9, "v": 9}, {"op": "revert"}]),
        json!([{"op": "burn", "n": 2}, {"op": "invalid"}]),
        // storage refunds: slots set and cleared again in one call, slots that hold a value cleared - the gas USED (after
        // refunds) is well below the gas the call NEEDS
        json!([{"op": "sstore", "s": 1, "v": 1}, {"op": "sstore", "s": 2, "v": 1}, {"op": "sstore", "s": 4, "v": 1}, {"op": "sstore", "s": 5, "v": 1},
               {"op": "sstore", "s": 1, "v": 0}, {"op": "sstore", "s": 2, "v": 0}, {"op": "sstore", "s": 4, "v": 0}, {"op": "sstore", "s": 5, "v": 0}, {"op": "ret", "s": 3}]),
        json!([{"op": "sstore", "s": 3, "v": 0}, {"op": "burn", "n": 30}, {"op": "sstore", "s": 1, "v": 2}, {"op": "sstore", "s": 1, "v": 0}, {"op": "sstore", "s": 2, "v": 2}, {"op": "sstore", "s": 2, "v": 0},
               {"op": "sstore", "s": 4, "v": 2}, {"op": "sstore", "s": 4, "v": 0}, {"op": "sstore", "s": 5, "v": 2}, {"op": "sstore", "s": 5, "v": 0}, {"op": "sstore", "s": 9, "v": 2}, {"op": "sstore", "s": 9, "v": 0}]),
        // (no heavy nested call here: the Cell ignores a callee's failure, so with an allowance between the callee's need and the
        // caller's the transaction succeeds with another result - a program that inspects remaining gas in effect, which C16 excludes)
        // long calldata, zero-heavy and not, in front of a callee that does (almost) nothing: the need is intrinsic gas
        json!([{"op": "pad", "n": 700, "b": 0}]),
        json!([{"op": "pad", "n": 4000, "b": 0}]),
        json!([{"op": "pad", "n": 2500, "b": 255}]),
        json!([{"op": "sstore", "s": 1, "v": 1}, {"op": "pad", "n": 3000, "b": 0}]),
        json!([{"op": "log", "t": [1]}, {"op": "pad", "n": 1200, "b": 1}]),
    ];
    // the hand-written list runs as a whole, once (shard 0: seed = 100 * run seed + shard); the other shards draw random programs
    let fixed = v.len();
    if seed % 100 != 0 {
        v.clear();
    }
    let n = if seed % 100 == 0 { n.max(fixed) } else { n };
    let mut rng = StdRng::seed_from_u64(seed);
    while v.len() < n {
        let len = rng.random_range(1..6);
        let mut ops = Vec::new();
        for _ in 0..len {
            ops.push(match rng.random_range(0..6) {
                0 => json!({"op": "sstore", "s": rng.random_range(1..6), "v": rng.random_range(0..4)}),
                1 => json!({"op": "burn", "n": rng.random_range(1..30)}),
                2 => json!({"op": "create"}),
                3 => json!({"op": "log", "t": (0..rng.random_range(0..5)).map(|_| rng.random_range(1..4)).collect::<Vec<u64>>()}),
                4 => {
                    let a: u64 = [2u64, 3, 4][rng.random_range(0..3)];
                    let d = hex::encode(vec![7u8; rng.random_range(0..60)]);
                    json!({"op": "static", "a": a, "data": d})
                }
                _ => json!({"op": "sstore", "s": rng.random_range(1..4), "v": 1}),
            });
        }
        if rng.random_range(0..5) == 0 {
            let fill = [0u64, 0, 0, 1, 255][rng.random_range(0..5)];
            ops.push(json!({"op": "pad", "n": rng.random_range(1..5000), "b": fill}));
        }
        if rng.random_range(0..4) == 0 {
            ops.push(json!({"op": "ret", "s": rng.random_range(1..4)}));
        }
        v.push(Value::Array(ops));
    }
    v.truncate(n);
    v
}

fn snapshot(p: &mut Player, cell: &str, slots: &[u64]) -> Value {
    let cell_hex = format!("{:#x}", p.names.addr(cell).unwrap());
    let s1 = format!("{:#x}", p.names.addr("s1").unwrap());
    let mut v = Vec::new();
    for s in slots {
        v.push(p.inst.call("eth_getStorageAt", json!([cell_hex, format!("{:#x}", s)])).ok().cloned().unwrap_or(Value::Null));
    }
    let n_cell = p.inst.call("eth_getTransactionCount", json!([cell_hex, "latest"])).ok().cloned().unwrap_or(Value::Null);
    json!({"cells": v, "n_cell": n_cell, "n_s1": p.inst.call("eth_getTransactionCount", json!([s1, "latest"])).ok().and_then(u64_of)})
}

pub fn run(out_path: &str, seed: u64, n: usize) -> i32 {
    let rt = crate::inst::runtime();
    let dir = tempfile::TempDir::new().unwrap();
    let mut p = match Player::new(rt, dir.path(), "regtest", true) {
        Ok(p) => p,
        Err(e) => {
            eprintln!("open: {}", e);
            return 2;
        }
    };
    let mut out = std::io::BufWriter::new(std::fs::File::create(out_path).unwrap());
    for s in [
        json!({"op": "init", "hash": "h100", "ts": 100, "height": 0}),
        json!({"op": "tx", "via": "deploy", "from": "s1", "to": "NULL", "ckind": "cell", "insc": "g1", "idx": 0, "hash": "h1", "ts": 101, "gas": "ample", "txid": "x1"}),
        json!({"op": "tx", "via": "call", "from": "s1", "to": "c_s1_0", "ops": [{"op": "sstore", "s": 3, "v": 2}], "insc": "g2", "idx": 1, "hash": "h1", "ts": 101, "gas": "ample", "txid": "x2"}),
        json!({"op": "finalise", "ts": 101, "hash": "h1", "count": 2}),
        json!({"op": "commit"}),
    ] {
        let ev = p.step_noobs(&s);
        if ev["res"] != json!("ok") && ev["res"] != json!("enverr") {
            eprintln!("setup step failed: {}", ev);
            return 2;
        }
    }
    let cell = "c_s1_0";
    let cell_hex = format!("{:#x}", p.names.addr(cell).unwrap());
    let s1_hex = format!("{:#x}", p.names.addr("s1").unwrap());
    let slots: Vec<u64> = vec![1, 2, 3, 4, 5, 9, 0xf0, 0xf1, 0xf2];
    let base = snapshot(&mut p, cell, &slots);
    let mut hctr = 1000u64;
    let mut attempts_n = 0u64;
    for (pi, ops) in programs(n, seed).into_iter().enumerate() {
        let ops_for_park = ops.clone();
        let _ = &ops_for_park;
        let data = format!("0x{}", hex::encode(crate::asm::encode_ops(&ops)));
        writeln!(out, "{}", json!({"ev": "GasBegin", "prog": pi, "ops": ops})).unwrap();
        let call = json!({"from": s1_hex, "to": cell_hex, "data": data});
        let rc = p.inst.call("eth_call", json!([call]));
        let call_ok = rc.is_ok();
        let outp = match &rc {
            crate::inst::Outcome::Ok(v) => p.abs_output(v.as_str().unwrap_or("0x")),
            _ => "failed".to_string(),
        };
        let re = p.inst.call("eth_estimateGas", json!([call]));
        let est = re.ok().and_then(u64_of);
        writeln!(out, "{}", json!({"ev": "GasEstimate", "call_ok": call_ok, "out": outp, "est_ok": est.is_some(), "est": est.unwrap_or(0)})).unwrap();
        let l = est.map(|e| (e + 11999) / 12000).unwrap_or(10);
        let mut lens: Vec<i64> = vec![0, 1, l as i64 - 1, l as i64, l as i64 + 1, 10 * l as i64 + 3, -1];
        lens.retain(|x| *x >= -1);
        lens.dedup();
        for len in lens {
            hctr += 1;
            let hash = names::hash_of_token(&format!("h{}", hctr), 0);
            let real_len: u64 = if len < 0 { u64::MAX / 3 } else { len as u64 };
            let r = p.inst.call("brc20_call", json!({"from_pkscript": names::pkscript("s1"), "contract_address": cell_hex, "data": data,
                "timestamp": 102, "hash": format!("{:#x}", hash), "tx_idx": 0, "inscription_id": format!("ga{}", hctr),
                "inscription_byte_len": real_len, "op_return_tx_id": format!("0x{}", "00".repeat(32))}));
            let Some(rcpt) = r.ok().cloned() else {
                writeln!(out, "{}", json!({"ev": "GasAttempt", "len": len, "status": 9, "gas_used": 0, "out": r.err_text(), "changed": true, "nonce_delta": 9})).unwrap();
                let _ = p.inst.call("brc20_clearCaches", json!([]));
                continue;
            };
            let tr = p.inst.call("debug_traceTransaction", json!([rcpt["transactionHash"]])).ok().cloned().unwrap_or(Value::Null);
            let outp = p.abs_output(tr["output"].as_str().unwrap_or("0x"));
            let after = snapshot(&mut p, cell, &slots);
            let changed = after["cells"] != base["cells"] || after["n_cell"] != base["n_cell"];
            let nd = after["n_s1"].as_u64().unwrap_or(99) as i64 - base["n_s1"].as_u64().unwrap_or(0) as i64;
            attempts_n += 1;
            writeln!(out, "{}", json!({"ev": "GasAttempt", "len": len, "status": u64_of(&rcpt["status"]).unwrap_or(9),
                "gas_used": u64_of(&rcpt["gasUsed"]).unwrap_or(0).min(2_000_000_000), "out": outp, "changed": changed, "nonce_delta": nd})).unwrap();
            let c = p.inst.call("brc20_clearCaches", json!([]));
            if !c.is_ok() {
                eprintln!("clearCaches failed: {}", c.err_text());
                return 2;
            }
            let back = snapshot(&mut p, cell, &slots);
            if back != base {
                // C03's business, but the attempts would no longer be comparable
                eprintln!("state after clearCaches differs from the committed state");
                return 2;
            }
        }
        // ---- the same program as a PARKED signed transaction: it keeps the allowance of its OWN inscription length when it
        // is executed later inside another call (the triggering transaction has a very different length)
        if let Some(e) = est {
            let need_len = (e + 11999) / 12000;
            for (own_len, trigger_len) in [(need_len as i64, 3i64), (need_len as i64 - 1, 400_000i64)] {
                if own_len < 2 {
                    continue;
                }
                hctr += 1;
                let hash = names::hash_of_token(&format!("h{}", hctr), 0);
                let k1 = format!("{:#x}", p.names.addr("k1").unwrap());
                let n0 = p.inst.call("eth_getTransactionCount", json!([k1, "latest"])).ok().and_then(u64_of).unwrap_or(0);
                let parked = p.raw_tx_public(&json!({"signer": "k1", "nonce": n0 + 1, "to": cell, "ops": ops, "chain": "own"}));
                let trigger = p.raw_tx_public(&json!({"signer": "k1", "nonce": n0, "to": "dead", "ops": [], "chain": "own"}));
                let zero32 = format!("0x{}", "00".repeat(32));
                let r1 = p.inst.call("brc20_transact", json!({"raw_tx_data": format!("0x{}", hex::encode(parked)), "timestamp": 102, "hash": format!("{:#x}", hash),
                    "tx_idx": 0, "inscription_id": format!("gp{}", hctr), "inscription_byte_len": own_len, "op_return_tx_id": zero32}));
                let r2 = p.inst.call("brc20_transact", json!({"raw_tx_data": format!("0x{}", hex::encode(trigger)), "timestamp": 102, "hash": format!("{:#x}", hash),
                    "tx_idx": 0, "inscription_id": format!("gt{}", hctr), "inscription_byte_len": trigger_len, "op_return_tx_id": zero32}));
                let rcs = r2.ok().and_then(|v| v.as_array().cloned()).unwrap_or_default();
                if !r1.is_ok() || rcs.len() != 2 {
                    writeln!(out, "{}", json!({"ev": "GasAttempt", "via": "drained", "len": own_len, "status": 9, "gas_used": 0, "out": format!("{} / {}", r1.err_text(), r2.err_text()), "changed": true, "nonce_delta": 9})).unwrap();
                } else {
                    let rc = &rcs[1];
                    let tr = p.inst.call("debug_traceTransaction", json!([rc["transactionHash"]])).ok().cloned().unwrap_or(Value::Null);
                    let outp = p.abs_output(tr["output"].as_str().unwrap_or("0x"));
                    let after = snapshot(&mut p, cell, &slots);
                    let changed = after["cells"] != base["cells"] || after["n_cell"] != base["n_cell"];
                    let n1 = p.inst.call("eth_getTransactionCount", json!([k1, "latest"])).ok().and_then(u64_of).unwrap_or(0);
                    attempts_n += 1;
                    writeln!(out, "{}", json!({"ev": "GasAttempt", "via": "drained", "len": own_len, "trigger_len": trigger_len, "status": u64_of(&rc["status"]).unwrap_or(9),
                        "gas_used": u64_of(&rc["gasUsed"]).unwrap_or(0).min(2_000_000_000), "out": outp, "changed": changed, "nonce_delta": n1 as i64 - n0 as i64 - 1})).unwrap();
                }
                let c = p.inst.call("brc20_clearCaches", json!([]));
                if !c.is_ok() {
                    eprintln!("clearCaches failed: {}", c.err_text());
                    return 2;
                }
            }
        }
    }
    out.flush().unwrap();
    println!("{}", json!({"programs": n, "attempts": attempts_n}));
    p.inst.close();
    0
}
