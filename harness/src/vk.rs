//! Per-transition conformance of `BlockHistoryCacheData` against the edges of VersionedKey.tla (C13).
//!
//! Input: TLC output containing lines `<<"EDGE", "<json>">>`.  For every edge the real object is
//! built in the source state (decoded from bytes), the action is applied, and the successor is
//! compared *behaviourally* with what the specification expects.

use std::io::{BufRead, BufReader};
use std::panic::{catch_unwind, AssertUnwindSafe};

use brc20_prog::types::U256ED;
use brc20_prog::verif::{BlockHistoryCache, BlockHistoryCacheData, Decode, Encode};
use serde::Deserialize;
use serde_json::json;

type H = BlockHistoryCacheData<U256ED>;

#[derive(Deserialize, Debug, Clone)]
struct Act {
    op: String,
    v: i64,
    b: u64,
    panic: bool,
}

#[derive(Deserialize, Debug, Clone)]
struct Exp {
    v: Vec<i64>,
    d: Vec<u8>,
}

#[derive(Deserialize, Debug, Clone)]
struct Edge {
    pre: Vec<(u64, u64)>,
    act: Act,
    post: Vec<(u64, u64)>,
    exp: Exp,
}

fn val(v: u64) -> Option<U256ED> {
    if v == 0 {
        None
    } else {
        Some(U256ED::from(v))
    }
}

fn unval(v: &Option<U256ED>) -> i64 {
    match v {
        None => 0,
        Some(x) => {
            let limbs = x.uint.as_limbs();
            if limbs[1] != 0 || limbs[2] != 0 || limbs[3] != 0 || limbs[0] > 1_000_000 {
                -2
            } else {
                limbs[0] as i64
            }
        }
    }
}

pub fn build(pairs: &[(u64, u64)]) -> H {
    let mut bytes = Vec::new();
    (pairs.len() as u32).encode(&mut bytes);
    for (b, v) in pairs {
        b.encode(&mut bytes);
        val(*v).encode(&mut bytes);
    }
    H::decode_vec(&bytes).expect("decode of a well-formed history")
}

/// Own decoder of the persisted form: u32 count, then (u64 block, u8 flag, [32-byte value]).
pub fn pairs_of(h: &H) -> Result<Vec<(u64, i64)>, String> {
    let bytes = h.encode_vec();
    if bytes.len() < 4 {
        return Err("short".into());
    }
    let n = u32::from_be_bytes(bytes[0..4].try_into().unwrap()) as usize;
    let mut off = 4;
    let mut out = Vec::new();
    for _ in 0..n {
        if bytes.len() < off + 9 {
            return Err("short entry".into());
        }
        let b = u64::from_be_bytes(bytes[off..off + 8].try_into().unwrap());
        off += 8;
        let flag = bytes[off];
        off += 1;
        if flag == 0 {
            out.push((b, 0));
        } else {
            if bytes.len() < off + 32 {
                return Err("short value".into());
            }
            let word = &bytes[off..off + 32];
            off += 32;
            let mut small = true;
            for x in &word[0..24] {
                if *x != 0 {
                    small = false;
                }
            }
            let v = u64::from_be_bytes(word[24..32].try_into().unwrap());
            out.push((b, if small { v as i64 } else { -2 }));
        }
    }
    if off != bytes.len() {
        return Err("trailing bytes".into());
    }
    Ok(out)
}

fn check_edge(e: &Edge, w: u64) -> Result<bool, String> {
    let mut h = build(&e.pre);
    // the action
    let res = match e.act.op.as_str() {
        "write" => {
            let b = e.act.b;
            let v = e.act.v as u64;
            catch_unwind(AssertUnwindSafe(|| {
                // return values (if a revision adds any) are not part of the contract checked here
                if v == 0 {
                    let _ = h.unset(b);
                } else {
                    let _ = h.set(b, U256ED::from(v));
                }
            }))
        }
        "reorg" => {
            let n = e.act.b;
            catch_unwind(AssertUnwindSafe(|| {
                let _ = h.reorg(n);
            }))
        }
        "isold" => {
            // one-sided: a history may only be reported old (and then be dropped at commit) when its
            // newest version really is more than W below b; keeping it longer is harmless
            let r = h.is_old(e.act.b);
            if r && e.act.v == 0 {
                return Err(format!("is_old({}) = true although the newest version is within the window", e.act.b));
            }
            Ok(())
        }
        "new" | "advance" | "reorgdeep" => Ok(()),
        other => return Err(format!("unknown op {}", other)),
    };
    match (res.is_err(), e.act.panic) {
        (true, true) => return Ok(true), // refused by panic, as specified; object is garbage afterwards
        (true, false) => return Err("panicked where the specification has a successor".into()),
        (false, true) => {
            if e.act.op == "reorg" {
                // no version at or below n: the code panics.  Not panicking is fine only if the
                // object then refuses to answer; an answer would be silently wrong.
                let r = catch_unwind(AssertUnwindSafe(|| unval(&h.latest())));
                if let Ok(got) = r {
                    return Err(format!(
                        "rollback below every retained version answered {} instead of refusing",
                        got
                    ));
                }
            }
            // a write below the newest version never happens at table level (heights are monotone);
            // how it is refused is not part of the property
            return Ok(false);
        }
        (false, false) => {}
    }
    // behaviour of the successor
    let top = e.exp.v.len() as u64 - 1;
    let latest = unval(&h.latest());
    if latest != e.exp.v[top as usize] {
        return Err(format!("latest() = {} expected {}", latest, e.exp.v[top as usize]));
    }
    for n in 0..=top {
        let mut c = h.clone();
        let r = catch_unwind(AssertUnwindSafe(|| {
            let _ = c.reorg(n);
            unval(&c.latest())
        }));
        let ev = e.exp.v[n as usize];
        match r {
            Ok(got) => {
                if ev == -1 {
                    return Err(format!(
                        "rollback to {} answered {} although the source history cannot know it (silently wrong)",
                        n, got
                    ));
                }
                if got != ev {
                    return Err(format!("rollback to {} gives {} expected {}", n, got, ev));
                }
            }
            Err(_) => {
                if e.exp.d[n as usize] == 1 {
                    return Err(format!(
                        "rollback to {} panics although the specification's successor retains it",
                        n
                    ));
                }
            }
        }
    }
    let pairs = pairs_of(&h)?;
    if pairs.len() as u64 > w + 1 {
        return Err(format!("{} versions retained (> W+1)", pairs.len()));
    }
    // encode/decode is behaviourally the identity
    let again = H::decode_vec(&h.encode_vec()).map_err(|e| e.to_string())?;
    if again.encode_vec() != h.encode_vec() {
        return Err("decode(encode(x)) != x".into());
    }
    let same = pairs.len() == e.post.len()
        && pairs
            .iter()
            .zip(e.post.iter())
            .all(|(a, b)| a.0 == b.0 && a.1 == b.1 as i64);
    Ok(same)
}

pub fn run(path: &str, w: u64, out: &str) -> i32 {
    let f = std::fs::File::open(path).expect("edges file");
    let rd = BufReader::with_capacity(1 << 20, f);
    let mut n = 0u64;
    let mut by_op = std::collections::BTreeMap::<String, u64>::new();
    let mut panics_expected = 0u64;
    let mut exact = 0u64;
    let mut violations = Vec::new();
    let mut samples = Vec::new();
    for line in rd.lines() {
        let line = line.unwrap();
        let Some(rest) = line.strip_prefix("<<\"EDGE\", ") else {
            continue;
        };
        let lit = rest.trim_end().trim_end_matches(">>");
        let js: String = match serde_json::from_str(lit) {
            Ok(s) => s,
            Err(e) => {
                eprintln!("cannot parse edge literal: {}", e);
                return 2;
            }
        };
        let e: Edge = match serde_json::from_str(&js) {
            Ok(e) => e,
            Err(err) => {
                eprintln!("cannot parse edge json: {} in {}", err, js);
                return 2;
            }
        };
        n += 1;
        *by_op.entry(e.act.op.clone()).or_default() += 1;
        if e.act.panic {
            panics_expected += 1;
        }
        if samples.len() < 3 && n % 1000 == 7 {
            samples.push(json!({"pre": e.pre, "act": {"op": e.act.op, "b": e.act.b, "v": e.act.v, "panic": e.act.panic}, "post": e.post}));
        }
        match check_edge(&e, w) {
            Ok(true) => exact += 1,
            Ok(false) => {}
            Err(msg) => {
                if violations.len() < 20 {
                    violations.push(json!({"edge": js, "why": msg}));
                }
            }
        }
    }
    let report = json!({
        "edges": n, "by_op": by_op, "panic_edges": panics_expected,
        "post_state_identical_to_model": exact,
        "violations": violations, "samples": samples,
    });
    std::fs::write(out, serde_json::to_string_pretty(&report).unwrap()).unwrap();
    if n == 0 {
        eprintln!("no edges in {}", path);
        return 2;
    }
    if report["violations"].as_array().unwrap().is_empty() {
        0
    } else {
        1
    }
}
