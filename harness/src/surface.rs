//! C09: request classes x engine states against the real RPC method table; every request on its own task under a
//! watchdog; after every request a read probe, after every (state, method) group a write round.

use rand::rngs::StdRng;
use rand::{Rng, SeedableRng};
use serde_json::{json, Value};

use crate::inst::Outcome;
use crate::locks::build_state;
use crate::methods::{self, Ctx};
use crate::player::Player;

/// parameter types of every method, in declaration order (named parameters are sent as an object)
pub fn schema(method: &str) -> Vec<(&'static str, &'static str)> {
    match method {
        "brc20_mine" => vec![("block_count", "u64"), ("timestamp", "u64")],
        "brc20_deploy" => vec![("from_pkscript", "pkscript"), ("data", "hex"), ("base64_data", "b64"), ("timestamp", "u64"), ("hash", "hash"),
                               ("tx_idx", "u64"), ("inscription_id", "string"), ("inscription_byte_len", "u64"), ("op_return_tx_id", "hash")],
        "brc20_call" => vec![("from_pkscript", "pkscript"), ("contract_address", "address"), ("contract_inscription_id", "string"), ("data", "hex"),
                             ("base64_data", "b64"), ("timestamp", "u64"), ("hash", "hash"), ("tx_idx", "u64"), ("inscription_id", "string"),
                             ("inscription_byte_len", "u64"), ("op_return_tx_id", "hash")],
        "brc20_transact" => vec![("raw_tx_data", "hex"), ("base64_raw_tx_data", "b64"), ("timestamp", "u64"), ("hash", "hash"), ("tx_idx", "u64"),
                                 ("inscription_id", "string"), ("inscription_byte_len", "u64"), ("op_return_tx_id", "hash")],
        "brc20_deposit" | "brc20_withdraw" => vec![(if method == "brc20_deposit" { "to_pkscript" } else { "from_pkscript" }, "pkscript"), ("ticker", "string"),
                                                   ("amount", "u256"), ("timestamp", "u64"), ("hash", "hash"), ("tx_idx", "u64"), ("inscription_id", "string")],
        "brc20_balance" => vec![("pkscript", "pkscript"), ("ticker", "string")],
        "brc20_initialise" => vec![("genesis_hash", "hash"), ("genesis_timestamp", "u64"), ("genesis_height", "u64")],
        "brc20_getTxReceiptByInscriptionId" => vec![("inscription_id", "string")],
        "brc20_getInscriptionIdByTxHash" | "eth_getTransactionReceipt" | "debug_traceTransaction" | "eth_getTransactionByHash"
        | "eth_getBlockTransactionCountByHash" | "eth_getUncleCountByBlockHash" => vec![("hash", "hash")],
        "brc20_getInscriptionIdByContractAddress" | "eth_getCode" | "txpool_contentFrom" => vec![("address", "address")],
        "brc20_finaliseBlock" => vec![("timestamp", "u64"), ("hash", "hash"), ("block_tx_count", "u64")],
        "brc20_reorg" | "eth_getUncleCountByBlockNumber" => vec![("n", "u64")],
        "eth_getBlockByNumber" => vec![("block", "blocktag"), ("is_full", "bool")],
        "eth_getBlockByHash" => vec![("block", "hash"), ("is_full", "bool")],
        "eth_getTransactionCount" | "eth_getBalance" => vec![("account", "address"), ("block", "blocktag")],
        "eth_getBlockTransactionCountByNumber" | "debug_getBlockTraceString" | "debug_getBlockTraceHash" | "debug_getRawHeader"
        | "debug_getRawBlock" | "debug_getRawReceipts" => vec![("block", "blocktag")],
        "eth_getLogs" => vec![("filter", "filter")],
        "eth_call" | "eth_estimateGas" => vec![("call", "ethcall"), ("block", "blocktag")],
        "eth_callMany" | "eth_estimateGasMany" => vec![("calls", "ethcalls"), ("block", "blocktag"), ("precompile_data", "precompile_data")],
        "eth_getStorageAt" => vec![("contract", "address"), ("location", "u256")],
        "eth_getTransactionByBlockNumberAndIndex" | "eth_getUncleByBlockNumberAndIndex" => vec![("block_number", "u64"), ("tx_idx", "u64")],
        "eth_getTransactionByBlockHashAndIndex" | "eth_getUncleByBlockHashAndIndex" => vec![("block_hash", "hash"), ("tx_idx", "u64")],
        "web3_sha3" => vec![("bytes", "hex")],
        _ => vec![],
    }
}

/// the class partition of each parameter type (RpcSurface.tla lists the same names)
pub fn class_value(ty: &str, class: &str, c: &Ctx) -> Option<Value> {
    let big_hex = || format!("0x{}", "ab".repeat(300_000));
    Some(match (ty, class) {
        (_, "absent") => return None,
        (_, "null") => Value::Null,
        (_, "number") => json!(7),
        (_, "negative") => json!(-1),
        (_, "object") => json!({"a": 1}),
        (_, "array") => json!([1, 2]),
        (_, "emptystring") => json!(""),
        (_, "garbage") => json!("\u{0}zz\u{fffd}not-a-value"),
        ("u64", "zero") => json!(0),
        ("u64", "one") => json!(1),
        ("u64", "u32max") => json!(4294967296u64),
        ("u64", "u64max") => json!(u64::MAX),
        ("u64", "string") => json!("12"),
        ("u64", "float") => json!(1.5),
        ("hash", "zero") => json!(format!("0x{}", "00".repeat(32))),
        ("hash", "known") => json!(c.block_hash),
        ("hash", "txhash") => json!(c.tx_hash),
        ("hash", "fresh") => json!(c.next_hash),
        ("hash", "small") => json!(format!("0x{}05", "00".repeat(31))),
        ("hash", "short") => json!("0x1234"),
        ("hash", "odd") => json!("0x123"),
        ("hash", "nohex") => json!(format!("0x{}", "zz".repeat(32))),
        ("hash", "noprefix") => json!("ab".repeat(32)),
        ("hex", "empty0x") => json!("0x"),
        ("hex", "odd") => json!("0x123"),
        ("hex", "nohex") => json!("0xzz"),
        ("hex", "big") => json!(big_hex()),
        ("hex", "one") => json!("0x00"),
        ("hex", "cell") => json!("0x01050b"),
        ("hex", "initcode") => json!(format!("0x{}", hex::encode(crate::asm::initcode(&crate::asm::cell_runtime())))),
        ("hex", "rawtx") => json!(c.raw_tx),
        ("b64", "pad1") => json!("="),
        ("b64", "pad4") => json!("===="),
        ("b64", "p0empty") => json!("AA"),      // prefix byte 0, no payload
        ("b64", "p1empty") => json!("AQ"),
        ("b64", "p2empty") => json!("Ag"),
        ("b64", "p3") => json!("AwEC"),          // unknown prefix 3
        ("b64", "p0valid") => json!("AAEFCw"),   // 00 01 05 0b
        ("b64", "p1trunc") => json!("Af8"),
        ("b64", "p2trunc") => json!("Aii1L/0"),  // zstd magic, truncated
        ("b64", "bomb") => {
            // zstd frame of 2 MB of zeros
            let data = vec![0u8; 2 * 1024 * 1024];
            let mut out = vec![0u8; 4096];
            let n = zstd_compress(&data, &mut out);
            let mut v = vec![2u8];
            v.extend_from_slice(&out[..n]);
            use base64::Engine;
            json!(base64::prelude::BASE64_STANDARD_NO_PAD.encode(v))
        }
        ("b64", "notb64") => json!("!!!***"),
        ("pkscript", "valid") => json!(c.pk),
        ("pkscript", "one") => json!("51"),
        ("pkscript", "two") => json!("5120"),
        ("pkscript", "odd") => json!("512"),
        ("pkscript", "nohex") => json!("zz"),
        ("pkscript", "long") => json!("ab".repeat(5000)),
        ("string", "valid") => json!(c.insc),
        ("string", "unicode") => json!("İİß\u{10ffff}ordi"),
        ("string", "long") => json!("x".repeat(100_000)),
        ("address", "valid") => json!(c.contract),
        ("address", "zero") => json!(format!("0x{}", "00".repeat(20))),
        ("address", "precompile") => json!("0x00000000000000000000000000000000000000fb"),
        ("address", "short") => json!("0x1234"),
        ("address", "nohex") => json!(format!("0x{}", "zz".repeat(20))),
        ("u256", "zero") => json!("0x0"),
        ("u256", "max") => json!(format!("0x{}", "ff".repeat(32))),
        ("u256", "over") => json!(format!("0x1{}", "00".repeat(32))),
        ("u256", "decimal") => json!("12"),
        ("u256", "nohex") => json!("0xzz"),
        ("blocktag", "latest") => json!("latest"),
        ("blocktag", "pending") => json!("pending"),
        ("blocktag", "earliest") => json!("earliest"),
        ("blocktag", "hexnum") => json!("0x1"),
        ("blocktag", "decnum") => json!("1"),
        ("blocktag", "huge") => json!("0xffffffffffffffff"),
        ("blocktag", "overflow") => json!("0x1ffffffffffffffff"),
        ("blocktag", "hash") => json!(c.block_hash),
        ("blocktag", "word") => json!("soon"),
        ("bool", "true") => json!(true),
        ("bool", "false") => json!(false),
        ("bool", "string") => json!("true"),
        ("filter", "empty") => json!({}),
        ("filter", "reversed") => json!({"fromBlock": "5", "toBlock": "1"}),
        ("filter", "wide") => json!({"fromBlock": "0", "toBlock": "1000"}),
        ("filter", "hugeto") => json!({"fromBlock": "0", "toBlock": "0xffffffffffffffff"}),
        ("filter", "hugeboth") => json!({"fromBlock": "0xffffffffffffffff", "toBlock": "0xffffffffffffffff"}),
        ("filter", "topics5") => json!({"topics": [null, null, null, null, null, [null]]}),
        ("filter", "emptyalt") => json!({"topics": [[]]}),
        ("filter", "badtopic") => json!({"topics": ["0x12"]}),
        ("filter", "badaddr") => json!({"address": "0x12"}),
        ("ethcall", "valid") => json!({"from": c.signer, "to": c.contract, "data": "0x01050b"}),
        ("ethcall", "nodata") => json!({"from": c.signer, "to": c.contract}),
        ("ethcall", "create") => json!({"from": c.signer, "data": format!("0x{}", hex::encode(crate::asm::initcode(&crate::asm::cell_runtime())))}),
        ("ethcall", "input") => json!({"to": c.contract, "input": "0x0705"}),
        ("ethcall", "both") => json!({"to": c.contract, "input": "0x0705", "data": "0x0705"}),
        ("ethcall", "badhex") => json!({"to": c.contract, "data": "0xzz"}),
        ("ethcall", "selfdestruct") => json!({"to": c.contract, "data": "0x08"}),
        ("ethcall", "invalidop") => json!({"to": c.contract, "data": "0x0a"}),
        ("ethcall", "burnall") => json!({"to": c.contract, "data": "0x06ff06ff06ff06ff06ff06ff06ff06ff06ff06ff06ff06ff06ff06ff06ff06ff"}),
        ("ethcall", "toprecompile1") => json!({"to": "0x0000000000000000000000000000000000000001", "data": "0x01"}),
        ("ethcall", "bigdatanocode") => json!({"from": c.signer, "to": "0x00000000000000000000000000000000000000aa", "data": format!("0x{}", "ab".repeat(600))}),
        ("ethcall", "fromcontract") => json!({"from": c.contract, "to": c.contract, "data": "0x01050b"}),
        ("ethcall", "toprecompile9") => json!({"to": "0x0000000000000000000000000000000000000009", "data": "0x01"}),
        ("ethcalls", "emptylist") => json!([]),
        ("ethcalls", "two") => json!([{"from": c.signer, "to": c.contract, "data": "0x01050b"}, {"from": c.signer, "to": c.contract, "data": "0x0705"}]),
        ("ethcalls", "secondfails") => json!([{"to": c.contract, "data": "0x01050b"}, {"to": c.contract, "data": "0x03"}]),
        ("ethcalls", "nodata") => json!([{"to": c.contract}]),
        ("ethcalls", "fromcontract") => json!([{"from": c.contract, "to": c.contract, "data": "0x01050b"}]),
        ("ethcalls", "secondfromcontract") => json!([{"from": c.signer, "to": c.contract, "data": "0x01050b"}, {"from": c.contract, "to": c.contract, "data": "0x0705"}]),
        ("ethcalls", "precompilefail") => json!([{"from": c.signer, "to": c.contract, "data": "0x01050b"}, {"to": "0x0000000000000000000000000000000000000009", "data": "0x0102030405"}]),
        ("ethcalls", "bigcalldata") => json!([{"from": c.signer, "to": c.contract, "data": format!("0x{}", "ab".repeat(700))}, {"from": c.signer, "data": format!("0x{}", hex::encode(crate::asm::initcode(&crate::asm::cell_runtime())))}]),
        ("ethcalls", "many") => Value::Array((0..60).map(|_| json!({"to": c.contract, "data": "0x01050b"})).collect()),
        ("precompile_data", "valid") => json!({"opReturnTxIds": [format!("0x{}", "11".repeat(32))], "bitcoinTxHexes": {}}),
        ("precompile_data", "shortids") => json!({"opReturnTxIds": [], "bitcoinTxHexes": {}}),
        ("precompile_data", "badtx") => json!({"opReturnTxIds": [], "bitcoinTxHexes": {format!("0x{}", "22".repeat(32)): "0xdeadbeef"}}),
        ("precompile_data", "missingfield") => json!({"opReturnTxIds": []}),
        _ => return None,
    })
}

fn zstd_compress(data: &[u8], out: &mut [u8]) -> usize {
    // the harness has no zstd dependency of its own: use the encoder published by the crate under test
    let b = brc20_prog::types::Base64Bytes::from_bytes(data.to_vec().into());
    use base64::Engine;
    if let Ok(b) = b {
        if let Ok(raw) = base64::prelude::BASE64_STANDARD_NO_PAD.decode(b.to_string()) {
            if raw.first() == Some(&2) {
                let n = raw.len() - 1;
                out[..n].copy_from_slice(&raw[1..]);
                return n;
            }
        }
    }
    0
}

pub fn classes(ty: &str) -> Vec<&'static str> {
    let common = vec!["absent", "null", "number", "negative", "object", "array", "emptystring", "garbage"];
    let own: Vec<&'static str> = match ty {
        "u64" => vec!["zero", "one", "u32max", "u64max", "string", "float"],
        "hash" => vec!["zero", "known", "txhash", "fresh", "small", "short", "odd", "nohex", "noprefix"],
        "hex" => vec!["empty0x", "odd", "nohex", "big", "one", "cell", "initcode", "rawtx"],
        "b64" => vec!["pad1", "pad4", "p0empty", "p1empty", "p2empty", "p3", "p0valid", "p1trunc", "p2trunc", "bomb", "notb64"],
        "pkscript" => vec!["valid", "one", "two", "odd", "nohex", "long"],
        "string" => vec!["valid", "unicode", "long"],
        "address" => vec!["valid", "zero", "precompile", "short", "nohex"],
        "u256" => vec!["zero", "max", "over", "decimal", "nohex"],
        "blocktag" => vec!["latest", "pending", "earliest", "hexnum", "decnum", "huge", "overflow", "hash", "word"],
        "bool" => vec!["true", "false", "string"],
        "filter" => vec!["empty", "reversed", "wide", "hugeto", "hugeboth", "topics5", "emptyalt", "badtopic", "badaddr"],
        "ethcall" => vec!["valid", "nodata", "create", "input", "both", "badhex", "selfdestruct", "invalidop", "burnall", "toprecompile1", "toprecompile9", "fromcontract", "bigdatanocode"],
        "ethcalls" => vec!["emptylist", "two", "secondfails", "nodata", "many", "fromcontract", "secondfromcontract", "precompilefail", "bigcalldata"],
        "precompile_data" => vec!["valid", "shortids", "badtx", "missingfield"],
        _ => vec![],
    };
    common.into_iter().chain(own.into_iter()).collect()
}

/// ABI-valid and ABI-invalid inputs for the custom precompiles and a few standard ones (sent through eth_call)
fn precompile_cases() -> Vec<(String, String)> {
    use alloy_sol_types::SolCall;
    mod abi {
        alloy_sol_types::sol! {
            function getLockedPkscript(bytes pkscript, uint256 lock_block_count) returns (bytes locked_pkscript);
            function verify(bytes pkscript, bytes message, bytes signature) returns (bool success);
            function getTxDetails(bytes32 txid) returns (uint256 a);
            function getLastSatLocation(bytes32 txid, uint256 vout, uint256 sat) returns (uint256 a);
            function getTxId() returns (bytes32);
        }
    }
    let mut v: Vec<(String, String)> = Vec::new();
    let addr = |n: u8| format!("0x{}{:02x}", "00".repeat(19), n);
    for a in [0xfau8, 0xfb, 0xfc, 0xfd, 0xfe, 1, 2, 3, 4, 5, 6, 7, 8, 9, 10, 11, 17] {
        for data in ["0x".to_string(), "0x12345678".to_string(), format!("0x{}", "ff".repeat(36)), format!("0x{}", "00".repeat(32 * 1024 + 1))] {
            v.push((addr(a), data));
        }
    }
    for pk_len in [0usize, 1, 2, 33, 34, 35] {
        for lock in [0u64, 1, 16, 17, 65535, 65536, u64::MAX] {
            let d = abi::getLockedPkscriptCall::new((vec![0x51u8; pk_len].into(), alloy::primitives::U256::from(lock))).abi_encode();
            v.push((addr(0xfb), format!("0x{}", hex::encode(d))));
        }
    }
    for (pk, msg, sig) in [(vec![], vec![], vec![]), (vec![0x51], vec![1, 2, 3], vec![0u8; 64]), (vec![0x51; 34], vec![0u8; 1000], vec![0xffu8; 200])] {
        let d = abi::verifyCall::new((pk.into(), msg.into(), sig.into())).abi_encode();
        v.push((addr(0xfe), format!("0x{}", hex::encode(d))));
    }
    let d = abi::getTxIdCall::new(()).abi_encode();
    v.push((addr(0xfa), format!("0x{}", hex::encode(d))));
    v
}

struct Monitor {
    violations: Vec<Value>,
    requests: u64,
    errors: u64,
    oks: u64,
}

fn fresh(rt: &std::sync::Arc<tokio::runtime::Runtime>, state: &str) -> Option<(Player, Ctx, tempfile::TempDir)> {
    let dir = tempfile::TempDir::new().unwrap();
    let mut p = Player::new(rt.clone(), dir.path(), "regtest", true).ok()?;
    p.inst.timeout = std::time::Duration::from_secs(30);
    let ctx = build_state(&mut p, state);
    Some((p, ctx, dir))
}

/// send one request; returns false when the instance must be abandoned
fn send(p: &mut Player, m: &mut Monitor, label: &Value, request: String) -> bool {
    m.requests += 1;
    let r = p.inst.call_raw(request.clone());
    match &r {
        Outcome::Ok(_) => m.oks += 1,
        Outcome::Err { .. } => m.errors += 1,
        Outcome::Panic(msg) => {
            m.violations.push(json!({"kind": "panic", "case": label, "message": msg, "request": request.chars().take(400).collect::<String>()}));
        }
        Outcome::Timeout => {
            m.violations.push(json!({"kind": "timeout", "case": label, "request": request.chars().take(400).collect::<String>()}));
            return false;
        }
    }
    // read probe: the server must still answer
    let probe = p.inst.call("eth_blockNumber", json!([]));
    if !probe.is_ok() {
        m.violations.push(json!({"kind": "wedged", "case": label, "probe": probe.err_text(), "request": request.chars().take(400).collect::<String>()}));
        return false;
    }
    !matches!(r, Outcome::Panic(_))
}

/// write round: the indexer interface still works (discard whatever is pending, then mine one block)
fn write_round(p: &mut Player, m: &mut Monitor, label: &Value) -> bool {
    let c = p.inst.call("brc20_clearCaches", json!([]));
    let w = p.inst.call("brc20_mine", json!([1, 77]));
    if !c.is_ok() || !w.is_ok() {
        m.violations.push(json!({"kind": "wedged", "case": label, "probe": format!("clearCaches: {} / mine: {}", c.err_text(), w.err_text())}));
        return false;
    }
    true
}

/// the parameters of `method` with parameter `pi` replaced by a value of class `class` (or dropped), the others well-formed
pub fn params_for(method: &str, pi: usize, class: &str, ctx: &Ctx) -> Option<Value> {
    let sch = schema(method);
    let valid = methods::params(method, ctx);
    // work proportional to the request is not a hang: mining 2^32 blocks is what was asked for
    if method == "brc20_mine" && pi == 0 && (class == "u32max" || class == "u64max") {
        return None;
    }
    let params: Value = if sch.is_empty() {
        json!([])
    } else if let Some(a) = valid.as_array() {
        // positional parameters: the one under test replaced (or dropped), the others well-formed
        let (_, ty) = sch[pi.min(sch.len() - 1)];
        let mut arr = a.clone();
        while arr.len() <= pi {
            arr.push(Value::Null);
        }
        match class_value(ty, class, ctx) {
            Some(v) => arr[pi] = v,
            None => {
                if pi + 1 == arr.len() {
                    arr.pop();
                } else {
                    arr[pi] = Value::Null;
                }
            }
        }
        Value::Array(arr)
    } else {
        let mut obj = valid.as_object().cloned().unwrap_or_default();
        let (name, ty) = sch[pi.min(sch.len() - 1)];
        if ty == "b64" {
            // the base64 field is only looked at when the hex field is absent
            obj.remove("data");
            obj.remove("raw_tx_data");
        }
        match class_value(ty, class, ctx) {
            Some(v) => {
                obj.insert(name.to_string(), v);
            }
            None => {
                obj.remove(name);
            }
        }
        Value::Object(obj)
    };
    Some(params)
}

fn request_for(method: &str, case: &Value, ctx: &Ctx) -> Option<String> {
    let pi = case["param"].as_u64().unwrap_or(0) as usize;
    let class = case["class"].as_str().unwrap_or("");
    let params = params_for(method, pi, class, ctx)?;
    Some(json!({"jsonrpc": "2.0", "id": 1, "method": method, "params": params}).to_string())
}

/// vh surface <cases.json> <report.json> <seed> <nrandom> [start index]
/// exit 0/1: done (1 = violations); exit 3: stopped after a hang, resume from "resume_from" in a new process
pub fn run(cases_path: &str, out_path: &str, seed: u64, nrandom: usize, start: usize) -> i32 {
    let cases: Vec<Value> = serde_json::from_str(&std::fs::read_to_string(cases_path).expect("cases")).expect("json");
    let rt = crate::inst::runtime();
    let mut m = Monitor { violations: Vec::new(), requests: 0, errors: 0, oks: 0 };
    let mut samples = Vec::new();
    let mut work: Vec<Value> = cases.clone();
    // the tail of the work list: precompile inputs and random bytes (only in the shard that asks for random bytes)
    if nrandom > 0 {
        for (to, data) in precompile_cases() {
            work.push(json!({"state": "init", "method": "precompile", "to": to, "data": data}));
        }
        let mut rng = StdRng::seed_from_u64(seed);
        for k in 0..nrandom {
            let len = [0usize, 1, 2, 3, 8, 33, 100, 600][rng.random_range(0..8)];
            let bytes: Vec<u8> = (0..len).map(|_| rng.random()).collect();
            work.push(json!({"state": "init", "method": "random", "k": k, "data": format!("0x{}", hex::encode(&bytes))}));
        }
    }
    let finish = |m: &Monitor, samples: &Vec<Value>, resume: Option<usize>, code: i32| -> ! {
        std::fs::write(out_path, serde_json::to_string(&json!({"requests": m.requests, "ok": m.oks, "err": m.errors,
            "violations": m.violations, "samples": samples, "resume_from": resume, "total": work.len()})).unwrap()).unwrap();
        // a handler may still be spinning: leave without running destructors
        std::process::exit(code)
    };
    let mut cur_state = String::new();
    let mut cur: Option<(Player, Ctx, tempfile::TempDir)> = None;
    let mut dirty = true;
    let zero32 = format!("0x{}", "00".repeat(32));
    for (idx, case) in work.iter().enumerate().skip(start) {
        let state = case["state"].as_str().unwrap_or("init").to_string();
        let method = case["method"].as_str().unwrap_or("").to_string();
        if dirty || state != cur_state || cur.is_none() {
            if let Some((mut p, _, _)) = cur.take() {
                let label = json!({"state": cur_state, "method": "write-round", "class": "after-group"});
                if write_round(&mut p, &mut m, &label) {
                    p.inst.close();
                } else {
                    std::mem::forget(p);
                }
            }
            cur = fresh(&rt, &state);
            if cur.is_none() {
                return 2;
            }
            cur_state = state.clone();
            dirty = false;
        }
        let (p, ctx, _) = cur.as_mut().unwrap();
        let (real_method, req) = match method.as_str() {
            "precompile" => ("eth_call".to_string(), json!({"jsonrpc": "2.0", "id": 1, "method": "eth_call", "params": [{"to": case["to"], "data": case["data"]}]}).to_string()),
            "random" => {
                let k = case["k"].as_u64().unwrap_or(0);
                let hx = case["data"].clone();
                let (mm, params) = match k % 4 {
                    0 => ("eth_call", json!([{"from": ctx.signer, "data": hx}])),
                    1 => ("eth_call", json!([{"from": ctx.signer, "to": ctx.contract, "data": hx}])),
                    2 => ("brc20_transact", json!({"raw_tx_data": hx, "timestamp": 5000 + k, "hash": zero32, "tx_idx": 0, "inscription_id": format!("r{}", k), "inscription_byte_len": 1000, "op_return_tx_id": zero32})),
                    _ => ("eth_estimateGas", json!([{"from": ctx.signer, "to": ctx.contract, "data": hx}])),
                };
                (mm.to_string(), json!({"jsonrpc": "2.0", "id": 1, "method": mm, "params": params}).to_string())
            }
            _ => match request_for(&method, case, ctx) {
                Some(r) => (method.clone(), r),
                None => continue,
            },
        };
        if samples.len() < 6 && idx % 97 == 3 {
            samples.push(json!({"case": case, "request": req.chars().take(200).collect::<String>()}));
        }
        let before_ok = m.oks;
        let _ = std::fs::write(format!("{}.cur", out_path), json!({"index": idx, "case": case, "request": req.chars().take(300).collect::<String>()}).to_string());
        let alive = send(p, &mut m, case, req);
        if !alive {
            // hang, panic or wedged server: this process may have a spinning handler - hand over to a fresh process
            let last_kind = m.violations.last().map(|v| v["kind"].as_str().unwrap_or("").to_string()).unwrap_or_default();
            if last_kind == "timeout" {
                finish(&m, &samples, Some(idx + 1), 3);
            }
            if let Some((p, _, d)) = cur.take() {
                std::mem::forget(p);
                std::mem::forget(d);
            }
            dirty = true;
            continue;
        }
        // an accepted call of a state-changing method leaves the state class: rebuild before the next case
        // the empty database stops being empty with the first accepted indexer call: rebuild it (cheap);
        // the other state classes are rebuilt every few hundred requests
        if cur_state == "empty" && m.oks > before_ok && methods::MUTATING.contains(&real_method.as_str()) {
            dirty = true;
        }
        if m.requests % 400 == 399 {
            dirty = true;
        }
    }
    if let Some((mut p, _, _)) = cur.take() {
        let label = json!({"state": cur_state, "method": "write-round", "class": "final"});
        let _ = write_round(&mut p, &mut m, &label);
    }
    let bad = !m.violations.is_empty();
    finish(&m, &samples, None, if bad { 1 } else { 0 })
}

pub fn print_schema() -> i32 {
    let dir = tempfile::TempDir::new().unwrap();
    brc20_prog::verif::set_config(crate::inst::config("regtest", true, dir.path()));
    let mut i = crate::inst::Instance::open(crate::inst::runtime(), dir.path()).unwrap();
    let mut out = serde_json::Map::new();
    for m in i.method_names() {
        let s: Vec<Value> = schema(&m).iter().map(|(n, t)| json!([n, t])).collect();
        out.insert(m, Value::Array(s));
    }
    let mut cl = serde_json::Map::new();
    for t in ["u64", "hash", "hex", "b64", "pkscript", "string", "address", "u256", "blocktag", "bool", "filter", "ethcall", "ethcalls", "precompile_data"] {
        cl.insert(t.to_string(), json!(classes(t)));
    }
    println!("{}", json!({"schema": out, "classes": cl}));
    i.close();
    0
}
