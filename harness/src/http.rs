//! A real server through the public `start()` on loopback and a minimal HTTP/1.1 client (C12, C20; no hook needed).

use std::io::{Read, Write};
use std::net::TcpStream;
use std::path::Path;
use std::time::Duration;

use brc20_prog::Brc20ProgConfig;
use serde_json::Value;

/// A port nobody else in this sandbox is likely to grab between the probe and the server's bind: several harness
/// processes run side by side, so each draws from its own pid-derived range and remembers what it handed out.
pub fn free_port() -> u16 {
    use std::sync::atomic::{AtomicU32, Ordering};
    static NEXT: AtomicU32 = AtomicU32::new(0);
    let base = 20000 + (std::process::id() % 350) * 100;
    for _ in 0..200 {
        let k = NEXT.fetch_add(1, Ordering::SeqCst) % 100;
        let port = (base + k) as u16;
        if std::net::TcpListener::bind(("127.0.0.1", port)).is_ok() {
            return port;
        }
    }
    let l = std::net::TcpListener::bind("127.0.0.1:0").unwrap();
    l.local_addr().unwrap().port()
}

pub fn server_config(dir: &Path, port: u16, net: &str, traces: bool, auth: Option<(&str, &str)>) -> Brc20ProgConfig {
    let mut c = crate::inst::config(net, traces, dir);
    c.brc20_prog_rpc_server_url = format!("127.0.0.1:{}", port);
    if let Some((u, p)) = auth {
        c.brc20_prog_rpc_server_enable_auth = true;
        c.brc20_prog_rpc_server_user = Some(u.to_string());
        c.brc20_prog_rpc_server_password = Some(p.to_string());
    }
    c
}

/// POST one body; returns (http status, body text).  `auth` is the literal Authorization header value.
pub fn post(port: u16, body: &str, auth: Option<&str>) -> Result<(u16, String), String> {
    let mut s = TcpStream::connect(("127.0.0.1", port)).map_err(|e| e.to_string())?;
    s.set_read_timeout(Some(Duration::from_secs(20))).ok();
    let mut req = format!(
        "POST / HTTP/1.1\r\nHost: 127.0.0.1:{}\r\nContent-Type: application/json\r\nContent-Length: {}\r\nConnection: close\r\n",
        port,
        body.len()
    );
    if let Some(a) = auth {
        req.push_str(&format!("Authorization: {}\r\n", a));
    }
    req.push_str("\r\n");
    s.write_all(req.as_bytes()).map_err(|e| e.to_string())?;
    s.write_all(body.as_bytes()).map_err(|e| e.to_string())?;
    let mut buf = Vec::new();
    s.read_to_end(&mut buf).map_err(|e| e.to_string())?;
    let text = String::from_utf8_lossy(&buf).to_string();
    let (head, rest) = text.split_once("\r\n\r\n").unwrap_or((&text, ""));
    let status: u16 = head.split_whitespace().nth(1).and_then(|x| x.parse().ok()).unwrap_or(0);
    let body = if head.to_lowercase().contains("transfer-encoding: chunked") {
        dechunk(rest)
    } else {
        rest.to_string()
    };
    Ok((status, body))
}

fn dechunk(s: &str) -> String {
    let mut out = String::new();
    let mut rest = s;
    loop {
        let Some((len_line, after)) = rest.split_once("\r\n") else { break };
        let n = usize::from_str_radix(len_line.trim(), 16).unwrap_or(0);
        if n == 0 || after.len() < n {
            break;
        }
        out.push_str(&after[..n]);
        rest = after[n..].trim_start_matches("\r\n");
    }
    out
}

/// like `rpc`, for the harness's own bookkeeping queries: a transport failure (refused connection, timeout on a loaded
/// machine) is retried and finally is a tool error - it must never be mistaken for an answer of the server
pub fn rpc_sure(port: u16, method: &str, params: Value, auth: Option<&str>) -> Value {
    let mut last = String::new();
    for attempt in 0..6 {
        match rpc(port, method, params.clone(), auth) {
            Ok(v) => return v,
            Err(e) => {
                last = e;
                std::thread::sleep(Duration::from_millis(100 << attempt));
            }
        }
    }
    eprintln!("TOOL ERROR: the harness cannot talk to its own server ({} on port {}): {}", method, port, last);
    std::process::exit(2);
}

pub fn rpc(port: u16, method: &str, params: Value, auth: Option<&str>) -> Result<Value, String> {
    let body = serde_json::json!({"jsonrpc": "2.0", "id": 1, "method": method, "params": params}).to_string();
    let (_st, text) = post(port, &body, auth)?;
    serde_json::from_str(&text).map_err(|e| format!("{}: {}", e, text))
}

pub fn basic(user: &str, pass: &str) -> String {
    use base64::Engine;
    format!("Basic {}", base64::prelude::BASE64_STANDARD.encode(format!("{}:{}", user, pass)))
}

/// One WebSocket connection on the same port: upgrade (with the optional Authorization header), one text frame out,
/// then every text frame that arrives until the reply to a trailing sentinel read (id 4099) has been seen.
/// Returns (http status of the upgrade, frames other than the sentinel's reply).
pub fn ws_exchange(port: u16, body: &str, auth: Option<&str>, expect_reply: bool) -> Result<(u16, Vec<String>), String> {
    let mut s = TcpStream::connect(("127.0.0.1", port)).map_err(|e| e.to_string())?;
    s.set_read_timeout(Some(Duration::from_secs(20))).ok();
    let mut req = format!(
        "GET / HTTP/1.1\r\nHost: 127.0.0.1:{}\r\nUpgrade: websocket\r\nConnection: Upgrade\r\nSec-WebSocket-Key: dGhlIHNhbXBsZSBub25jZQ==\r\nSec-WebSocket-Version: 13\r\n",
        port
    );
    if let Some(a) = auth {
        req.push_str(&format!("Authorization: {}\r\n", a));
    }
    req.push_str("\r\n");
    s.write_all(req.as_bytes()).map_err(|e| e.to_string())?;
    // response head
    let mut head = Vec::new();
    let mut b = [0u8; 1];
    while !head.ends_with(b"\r\n\r\n") {
        let n = s.read(&mut b).map_err(|e| e.to_string())?;
        if n == 0 {
            break;
        }
        head.push(b[0]);
        if head.len() > 16384 {
            break;
        }
    }
    let head = String::from_utf8_lossy(&head).to_string();
    let status: u16 = head.split_whitespace().nth(1).and_then(|x| x.parse().ok()).unwrap_or(0);
    if status != 101 {
        return Ok((status, vec![]));
    }
    let send = |s: &mut TcpStream, text: &str| -> Result<(), String> {
        let payload = text.as_bytes();
        let mut f = vec![0x81u8];
        let mask = [0x12u8, 0x34, 0x56, 0x78];
        if payload.len() < 126 {
            f.push(0x80 | payload.len() as u8);
        } else if payload.len() < 65536 {
            f.push(0x80 | 126);
            f.extend_from_slice(&(payload.len() as u16).to_be_bytes());
        } else {
            f.push(0x80 | 127);
            f.extend_from_slice(&(payload.len() as u64).to_be_bytes());
        }
        f.extend_from_slice(&mask);
        f.extend(payload.iter().enumerate().map(|(i, x)| x ^ mask[i % 4]));
        s.write_all(&f).map_err(|e| e.to_string())
    };
    send(&mut s, body)?;
    std::thread::sleep(Duration::from_millis(5));
    send(&mut s, r#"{"jsonrpc":"2.0","id":4099,"method":"eth_chainId","params":[]}"#)?;
    let mut frames = Vec::new();
    let mut sentinel_seen = false;
    loop {
        let mut h = [0u8; 2];
        if s.read_exact(&mut h).is_err() {
            break;
        }
        let op = h[0] & 0x0f;
        let mut len = (h[1] & 0x7f) as u64;
        if len == 126 {
            let mut e = [0u8; 2];
            s.read_exact(&mut e).map_err(|e| e.to_string())?;
            len = u16::from_be_bytes(e) as u64;
        } else if len == 127 {
            let mut e = [0u8; 8];
            s.read_exact(&mut e).map_err(|e| e.to_string())?;
            len = u64::from_be_bytes(e);
        }
        let mut payload = vec![0u8; len as usize];
        s.read_exact(&mut payload).map_err(|e| e.to_string())?;
        match op {
            1 => {
                let t = String::from_utf8_lossy(&payload).to_string();
                if t.contains("\"id\":4099") {
                    sentinel_seen = true;
                    if !frames.is_empty() {
                        break;
                    }
                    if !expect_reply {
                        // a reply nobody should send gets a short grace period to show up
                        s.set_read_timeout(Some(Duration::from_millis(30))).ok();
                    }
                } else {
                    frames.push(t);
                    if sentinel_seen {
                        break;
                    }
                }
            }
            8 => break,
            _ => {}
        }
    }
    Ok((status, frames))
}
