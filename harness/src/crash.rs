//! C04: a crash before EVERY persistent write of a commit / reorg / finalise (hook H2), reopen, recovering reorg to a
//! durable height, three more blocks.  One trace run per crash point.

use std::io::Write;

use serde_json::{json, Value};

use crate::player::Player;

fn u64_of(v: &Value) -> Option<u64> {
    u64::from_str_radix(v.as_str()?.trim_start_matches("0x"), 16).ok()
}

struct Book {
    durable: i64, // height as of the last accepted commit / reorg (-1: nothing committed)
    max_ever: i64,
}

fn height(p: &mut Player) -> i64 {
    let h = p.inst.call("eth_blockNumber", json!([])).ok().and_then(u64_of).unwrap_or(0) as i64;
    if h == 0 && !p.inst.call("eth_getBlockByNumber", json!(["0", false])).is_ok() {
        -1
    } else {
        h
    }
}

fn play_prefix(p: &mut Player, steps: &[Value], out: &mut Vec<Value>, book: &mut Book) {
    for s in steps {
        let mut ev = p.step_noobs(s);
        ev["noobs"] = json!(true);
        let ok = ev["res"] == json!("ok");
        let op = s["op"].as_str().unwrap_or("");
        if ok && (op == "commit" || op == "reorg") {
            book.durable = height(p);
        }
        if op == "clear" || op == "restart" {
            // back to the durable state; nothing to record
        }
        let h = height(p);
        if h > book.max_ever {
            book.max_ever = h;
        }
        out.push(ev);
    }
}

/// three more blocks after the recovery.  Their call data is unlike anything the generator produces: an earlier INVALID
/// transaction with the same sender, target and data would share its hash (known finding D14) and be mistaken for a crash effect
fn tail_steps(k: u64) -> Vec<Value> {
    let mut v = Vec::new();
    for b in 0..3u64 {
        let hash = format!("h{}", 9000 + 10 * k + b);
        let ts = 9000 + b;
        v.push(json!({"op": "tx", "via": "call", "from": "s1", "to": "dead", "ops": [{"op": "sstore", "s": 9, "v": (200 + b)}, {"op": "log", "t": [4, 4, 4, 4]}],
                      "insc": format!("tail{}_{}", k, b), "idx": 0, "hash": hash, "ts": ts, "gas": "ample", "txid": "zero"}));
        v.push(json!({"op": "tx", "via": "deposit", "holder": "s1", "ticker": "ordi", "amt": 1, "insc": format!("taild{}_{}", k, b), "idx": 1, "hash": hash, "ts": ts}));
        v.push(json!({"op": "finalise", "ts": ts, "hash": hash, "count": 2}));
    }
    v.push(json!({"op": "commit"}));
    v
}

/// Child of the abort mode: plays the prefix in `dir`, arms the fail-point with abort = true and executes the target
/// operation; the process dies inside it (SIGABRT, no destructor runs, RocksDB is never closed).
pub fn child(dir: &str, sched_path: &str, t: usize, at: u64) -> i32 {
    let rt = crate::inst::runtime();
    let sched: Value = serde_json::from_str(&std::fs::read_to_string(sched_path).expect("schedule")).expect("json");
    let steps: Vec<Value> = sched["steps"].as_array().cloned().unwrap_or_default();
    let mut p = match Player::new(rt, std::path::Path::new(dir), "regtest", true) {
        Ok(p) => p,
        Err(e) => {
            eprintln!("open: {}", e);
            return 2;
        }
    };
    let mut scratch = Vec::new();
    let mut book = Book { durable: -1, max_ever: -1 };
    play_prefix(&mut p, &steps[..t], &mut scratch, &mut book);
    brc20_prog::verif::persist_start(Some(at), true);
    let _ = p.step_noobs(&steps[t]);
    // not reached when the fail-point fired
    3
}

pub fn run(sched_path: &str, out_path: &str, max_points: usize, abort_points: usize) -> i32 {
    use std::io::BufRead;
    let rt = crate::inst::runtime();
    let f = std::fs::File::open(sched_path).expect("schedules");
    let mut out = std::io::BufWriter::new(std::fs::File::create(out_path).expect("out"));
    let mut orders: Vec<Value> = Vec::new();
    let mut runs = 0u64;
    let mut points = 0u64;
    let mut skipped = 0u64;
    let mut run_id = 0u64;
    let mut hard_n = 0u64;
    for line in std::io::BufReader::new(f).lines() {
        let line = line.unwrap();
        if line.trim().is_empty() {
            continue;
        }
        let sched: Value = serde_json::from_str(&line).expect("json");
        let steps: Vec<Value> = sched["steps"].as_array().cloned().unwrap_or_default();
        // targets: the last commit, the last reorg and the last finalise of the schedule
        let mut targets = Vec::new();
        for op in ["commit", "reorg", "finalise"] {
            if let Some(t) = steps.iter().rposition(|s| s["op"] == json!(op)) {
                targets.push(t);
            }
        }
        for t in targets {
            // ---- dry run: how many persistent writes does the target operation issue?
            let dir = tempfile::TempDir::new().unwrap();
            let mut p = match Player::new(rt.clone(), dir.path(), "regtest", true) {
                Ok(p) => p,
                Err(e) => {
                    eprintln!("open: {}", e);
                    return 2;
                }
            };
            let mut scratch = Vec::new();
            let mut book = Book { durable: -1, max_ever: -1 };
            play_prefix(&mut p, &steps[..t], &mut scratch, &mut book);
            brc20_prog::verif::persist_start(None, false);
            let ev = p.step_noobs(&steps[t]);
            let log = brc20_prog::verif::persist_stop();
            p.inst.close();
            if ev["res"] != json!("ok") || log.is_empty() {
                skipped += 1;
                continue;
            }
            let n = log.len();
            orders.push(json!({"op": steps[t]["op"], "writes": log.iter().map(|w| json!([w.table, w.row, w.op])).collect::<Vec<_>>()}));
            let during = steps[t]["op"].as_str().unwrap_or("").to_string();
            // crash points: all of them, or an even sample
            let mut idxs: Vec<usize> = if n <= max_points { (1..=n).collect() } else { (0..max_points).map(|k| 1 + k * (n - 1) / (max_points - 1)).collect() };
            // the writes of the three block-keyed tables are few and order-sensitive (deletes in sequence, holes in between): every
            // one of them is a crash point, and so is the write right after the last of them
            for (j, w) in log.iter().enumerate() {
                if w.row == "block" {
                    idxs.push(j + 1);
                    if j + 2 <= n {
                        idxs.push(j + 2);
                    }
                }
            }
            idxs.sort();
            idxs.dedup();
            // a few of the points are executed by a child process that really dies (abort inside the write path): nothing
            // is flushed or closed, so what survives is exactly what RocksDB had made durable
            let abort_at: Vec<usize> = if abort_points == 0 || n == 0 { vec![] } else {
                let mut v: Vec<usize> = (0..abort_points).map(|k| 1 + k * (n - 1) / (abort_points.max(2) - 1)).filter(|x| *x <= n).collect();
                v.dedup();
                v
            };
            let mut plan: Vec<(usize, bool)> = idxs.iter().map(|i| (*i, false)).collect();
            plan.extend(abort_at.iter().map(|i| (*i, true)));
            for (i, hard) in plan {
                run_id += 1;
                let dir = tempfile::TempDir::new().unwrap();
                let child_dir = tempfile::TempDir::new().unwrap();
                if hard {
                    let sp = child_dir.path().join("sched.json");
                    std::fs::write(&sp, sched.to_string()).unwrap();
                    let dbdir = child_dir.path().join("db");
                    std::fs::create_dir_all(&dbdir).unwrap();
                    let st = std::process::Command::new(std::env::current_exe().unwrap())
                        .args(["crash-child", dbdir.to_str().unwrap(), sp.to_str().unwrap(), &t.to_string(), &i.to_string()])
                        .stdout(std::process::Stdio::null()).stderr(std::process::Stdio::null()).status();
                    use std::os::unix::process::ExitStatusExt;
                    let died = st.as_ref().map(|s| s.signal().is_some()).unwrap_or(false);
                    if !died {
                        eprintln!("abort-mode child did not die at write {} of {}: {:?}", i, n, st);
                        return 2;
                    }
                }
                let mut p = Player::new(rt.clone(), dir.path(), "regtest", true).unwrap();
                let mut evs = vec![json!({"ev": "Reset", "run": run_id, "res": "ok", "traces": true, "net": "regtest", "sched": sched["run"], "target": t, "at": i, "of": n, "hard": hard})];
                let mut book = Book { durable: -1, max_ever: -1 };
                play_prefix(&mut p, &steps[..t], &mut evs, &mut book);
                let ev = if hard {
                    // the parent's player has the same names and universes (the prefix is deterministic); it now takes over
                    // the directory the child died in
                    p.inst.close();
                    p.inst.dir = child_dir.path().join("db");
                    json!({"res": "err", "err": "injected crash (process aborted)"})
                } else {
                    brc20_prog::verif::persist_start(Some(i as u64), false);
                    let ev = p.step_noobs(&steps[t]);
                    let _ = brc20_prog::verif::persist_stop();
                    ev
                };
                if ev["res"] != json!("err") || !ev["err"].as_str().unwrap_or("").contains("injected crash") {
                    evs.push(json!({"ev": "Crash", "during": during, "n": steps[t]["n"], "at": i, "of": n, "res": "not-injected", "detail": ev["err"]}));
                } else {
                    evs.push(json!({"ev": "Crash", "during": during, "n": if steps[t]["n"].is_number() { steps[t]["n"].clone() } else { json!(0) }, "at": i, "of": n, "res": "ok"}));
                }
                let r = p.inst.reopen();
                p.mid_block = false;
                evs.push(json!({"ev": "Reopen", "res": if r.is_ok() { "ok" } else { "err" }, "err": r.err().unwrap_or_default()}));
                points += 1;
                if hard {
                    hard_n += 1;
                }
                if during != "finalise" {
                    let cap = if during == "reorg" { book.durable.min(steps[t]["n"].as_i64().unwrap_or(0)) } else { book.durable };
                    // an admissible recovery target: durable, not above the interrupted reorg's target, inside the window
                    if cap < 0 || book.max_ever - cap > 10 {
                        evs.clear(); // nothing the property promises here
                        skipped += 1;
                        p.inst.close();
                        continue;
                    }
                    let ev = p.step(&json!({"op": "reorg", "n": cap}));
                    evs.push(ev);
                } else {
                    // the instance must simply be at its last commit: take the projection through a no-op read
                    let mut ev = json!({"ev": "Clear", "res": "ok", "err": ""});
                    let _ = p.inst.call("brc20_clearCaches", json!([]));
                    ev["obs"] = p.obs();
                    evs.push(ev);
                }
                for s in tail_steps(run_id) {
                    evs.push(p.step(&s));
                }
                for mut e in evs {
                    crate::denull(&mut e);
                    writeln!(out, "{}", e).unwrap();
                }
                runs += 1;
                p.inst.close();
            }
        }
    }
    out.flush().unwrap();
    println!("{}", json!({"runs": runs, "crash_points": points, "skipped": skipped, "orders": orders, "hard_kills": hard_n}));
    0
}
