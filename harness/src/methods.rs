//! A well-formed request for every registered RPC method, parameterised by a small context
//! (used by the lock recorder C11, the auth table C12 and the request classes C09).

use serde_json::{json, Value};

#[derive(Clone, Debug)]
pub struct Ctx {
    pub pk: String,
    pub contract: String,
    pub tx_hash: String,
    pub block_hash: String,
    pub next_hash: String,
    pub next_ts: u64,
    pub next_idx: u64,
    pub height: u64,
    pub raw_tx: String,
    pub signer: String,
    pub insc: String,
}

impl Ctx {
    pub fn dummy() -> Self {
        Ctx {
            pk: crate::names::pkscript("s1"),
            contract: "0x00000000000000000000000000000000000000aa".into(),
            tx_hash: format!("0x{}", "11".repeat(32)),
            block_hash: format!("0x{}", "22".repeat(32)),
            next_hash: format!("0x{}", "33".repeat(32)),
            next_ts: 1000,
            next_idx: 0,
            height: 0,
            raw_tx: "0x".into(),
            signer: "0x00000000000000000000000000000000000000bb".into(),
            insc: "ctxinsc".into(),
        }
    }
}

/// One representative, well-typed parameter object/array per method.
pub fn params(method: &str, c: &Ctx) -> Value {
    let zero32 = format!("0x{}", "00".repeat(32));
    let cell_call = "0x01050b"; // Cell: sstore 5 := 11
    match method {
        "brc20_version" | "eth_blockNumber" | "eth_chainId" | "eth_maxPriorityFeePerGas" | "eth_blobBaseFee"
        | "net_version" | "web3_clientVersion" | "eth_accounts" | "eth_gasPrice" | "eth_syncing" | "txpool_content"
        | "brc20_commitToDatabase" | "brc20_clearCaches" => json!([]),
        "brc20_mine" => json!([1, c.next_ts]),
        "brc20_deploy" => json!({"from_pkscript": c.pk, "data": format!("0x{}", hex::encode(crate::asm::initcode(&crate::asm::cell_runtime()))),
            "timestamp": c.next_ts, "hash": c.next_hash, "tx_idx": c.next_idx, "inscription_id": c.insc,
            "inscription_byte_len": 100000, "op_return_tx_id": zero32}),
        "brc20_call" => json!({"from_pkscript": c.pk, "contract_address": c.contract, "data": cell_call,
            "timestamp": c.next_ts, "hash": c.next_hash, "tx_idx": c.next_idx, "inscription_id": c.insc,
            "inscription_byte_len": 100000, "op_return_tx_id": zero32}),
        "brc20_transact" => json!({"raw_tx_data": c.raw_tx, "timestamp": c.next_ts, "hash": c.next_hash, "tx_idx": c.next_idx,
            "inscription_id": c.insc, "inscription_byte_len": 100000, "op_return_tx_id": zero32}),
        "brc20_deposit" => json!({"to_pkscript": c.pk, "ticker": "ordi", "amount": "0x5", "timestamp": c.next_ts,
            "hash": c.next_hash, "tx_idx": c.next_idx, "inscription_id": c.insc}),
        "brc20_withdraw" => json!({"from_pkscript": c.pk, "ticker": "ordi", "amount": "0x1", "timestamp": c.next_ts,
            "hash": c.next_hash, "tx_idx": c.next_idx, "inscription_id": c.insc}),
        "brc20_balance" => json!([c.pk, "ordi"]),
        "brc20_initialise" => json!([c.next_hash, c.next_ts, c.height + 1]),
        "brc20_getTxReceiptByInscriptionId" => json!([c.insc]),
        "brc20_getInscriptionIdByTxHash" => json!([c.tx_hash]),
        "brc20_getInscriptionIdByContractAddress" => json!([c.contract]),
        "brc20_finaliseBlock" => json!([c.next_ts, c.next_hash, c.next_idx]),
        "brc20_reorg" => json!([c.height.saturating_sub(1)]),
        "eth_getBlockByNumber" => json!([format!("{}", c.height), true]),
        "eth_getBlockByHash" => json!([c.block_hash, true]),
        "eth_getTransactionCount" => json!([c.signer, "latest"]),
        "eth_getBlockTransactionCountByNumber" => json!([format!("{}", c.height)]),
        "eth_getBlockTransactionCountByHash" => json!([c.block_hash]),
        "eth_getLogs" => json!([{"fromBlock": format!("{}", c.height), "toBlock": format!("{}", c.height)}]),
        "eth_call" | "eth_estimateGas" => json!([{"from": c.signer, "to": c.contract, "data": cell_call}]),
        "eth_callMany" | "eth_estimateGasMany" => json!([[{"from": c.signer, "to": c.contract, "data": cell_call},
            {"from": c.signer, "to": c.contract, "data": "0x0705"}]]),
        "eth_getStorageAt" => json!([c.contract, "0x5"]),
        "eth_getCode" => json!([c.contract]),
        "eth_getTransactionReceipt" | "debug_traceTransaction" | "eth_getTransactionByHash" => json!([c.tx_hash]),
        "debug_getBlockTraceString" | "debug_getBlockTraceHash" | "debug_getRawHeader" | "debug_getRawBlock"
        | "debug_getRawReceipts" => json!([format!("{}", c.height)]),
        "eth_getTransactionByBlockNumberAndIndex" => json!([c.height, 0]),
        "eth_getTransactionByBlockHashAndIndex" => json!([c.block_hash, 0]),
        "eth_getBalance" => json!([c.signer, "latest"]),
        "eth_getUncleCountByBlockNumber" => json!([c.height]),
        "eth_getUncleCountByBlockHash" => json!([c.block_hash]),
        "eth_getUncleByBlockNumberAndIndex" => json!([c.height, 0]),
        "eth_getUncleByBlockHashAndIndex" => json!([c.block_hash, 0]),
        "web3_sha3" => json!(["0x68656c6c6f"]),
        "txpool_contentFrom" => json!([c.signer]),
        _ => json!([]),
    }
}

/// Methods whose accepted execution changes the state of the instance (Brc20Ref actions that are not UNCHANGED).
pub const MUTATING: &[&str] = &[
    "brc20_mine", "brc20_deploy", "brc20_call", "brc20_transact", "brc20_deposit", "brc20_withdraw", "brc20_initialise",
    "brc20_finaliseBlock", "brc20_reorg", "brc20_commitToDatabase", "brc20_clearCaches",
];
