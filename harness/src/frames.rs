//! C09 below the JSON-RPC layer: the frame classes of RpcSurface.tla sent as raw bytes to a server started by the public
//! `start()`; after every frame the engine must still answer a read, and a write every few frames.

use std::io::{Read, Write};
use std::net::TcpStream;
use std::time::Duration;

use serde_json::{json, Value};

use crate::http;

const BATCH_LIMIT: usize = 50;
const MAX_BODY: usize = 10 * 1024 * 1024;

fn post_head(port: u16, len: usize, ctype: &str) -> String {
    format!("POST / HTTP/1.1\r\nHost: 127.0.0.1:{}\r\nContent-Type: {}\r\nContent-Length: {}\r\nConnection: close\r\n\r\n", port, ctype, len)
}

fn call(id: u64) -> Value {
    json!({"jsonrpc": "2.0", "id": id, "method": "eth_blockNumber", "params": []})
}

fn bytes_for(frame: &str, port: u16) -> Vec<Vec<u8>> {
    let p = |body: &[u8]| {
        let mut v = post_head(port, body.len(), "application/json").into_bytes();
        v.extend_from_slice(body);
        vec![v]
    };
    let batch = |n: usize| Value::Array((0..n as u64).map(call).collect()).to_string();
    match frame {
        "empty_body" => p(b""),
        "not_json" => p(b"this is not json {{{"),
        "non_utf8" => p(&[0x7b, 0x22, 0xff, 0xfe, 0x22, 0x3a, 0x31, 0x7d]),
        "truncated_json" => p(br#"{"jsonrpc":"2.0","id":1,"method":"eth_blockNumber","par"#),
        "deep_nesting" => p(format!("{}{}", "[".repeat(100_000), "]".repeat(100_000)).as_bytes()),
        "batch_empty" => p(b"[]"),
        "batch_at_limit" => p(batch(BATCH_LIMIT).as_bytes()),
        "batch_over_limit" => p(batch(BATCH_LIMIT + 1).as_bytes()),
        "batch_huge" => p(batch(20_000).as_bytes()),
        "body_at_limit" => {
            let pad = "a".repeat(MAX_BODY - 200);
            p(json!({"jsonrpc": "2.0", "id": 1, "method": "web3_sha3", "params": [format!("0x{}", &pad[..(pad.len() / 2) * 2 - 2])]}).to_string().as_bytes())
        }
        "body_over_limit" => p("x".repeat(MAX_BODY + 4096).as_bytes()),
        "length_longer_than_body" => {
            let mut v = post_head(port, 500, "application/json").into_bytes();
            v.extend_from_slice(call(1).to_string().as_bytes());
            vec![v]
        }
        "length_shorter_than_body" => {
            let body = call(1).to_string();
            let mut v = post_head(port, 10, "application/json").into_bytes();
            v.extend_from_slice(body.as_bytes());
            vec![v]
        }
        "no_length" => vec![format!("POST / HTTP/1.1\r\nHost: x\r\nContent-Type: application/json\r\nConnection: close\r\n\r\n{}", call(1)).into_bytes()],
        "wrong_content_type" => {
            let body = call(1).to_string();
            let mut v = post_head(port, body.len(), "text/plain").into_bytes();
            v.extend_from_slice(body.as_bytes());
            vec![v]
        }
        "get" => vec![b"GET / HTTP/1.1\r\nHost: x\r\nConnection: close\r\n\r\n".to_vec()],
        "put" => vec![b"PUT / HTTP/1.1\r\nHost: x\r\nContent-Length: 2\r\nConnection: close\r\n\r\n{}".to_vec()],
        "garbage_request_line" => vec![b"\x16\x03\x01\x02\x00\x01\x00\x01\xfc\x03\x03 not http at all\r\n\r\n".to_vec()],
        "huge_header" => vec![format!("POST / HTTP/1.1\r\nHost: x\r\nX-Pad: {}\r\nContent-Length: 2\r\n\r\n{{}}", "h".repeat(200_000)).into_bytes()],
        "chunked" => {
            let body = call(1).to_string();
            vec![format!("POST / HTTP/1.1\r\nHost: x\r\nContent-Type: application/json\r\nTransfer-Encoding: chunked\r\nConnection: close\r\n\r\n{:x}\r\n{}\r\n0\r\n\r\n", body.len(), body).into_bytes()]
        }
        "pipelined_two" => {
            let body = call(1).to_string();
            let one = format!("POST / HTTP/1.1\r\nHost: x\r\nContent-Type: application/json\r\nContent-Length: {}\r\n\r\n{}", body.len(), body);
            vec![format!("{}{}", one, one).into_bytes()]
        }
        "id_types" => p(json!([{"jsonrpc": "2.0", "id": null, "method": "eth_blockNumber", "params": []}, {"jsonrpc": "2.0", "id": "s", "method": "eth_blockNumber", "params": []},
                               {"jsonrpc": "2.0", "id": 1.5, "method": "eth_blockNumber", "params": []}, {"jsonrpc": "2.0", "id": {"a": 1}, "method": "eth_blockNumber", "params": []},
                               {"jsonrpc": "2.0", "id": 18446744073709551615u64, "method": "eth_blockNumber", "params": []}]).to_string().as_bytes()),
        "duplicate_keys" => p(br#"{"jsonrpc":"2.0","id":1,"method":"eth_blockNumber","method":"eth_getBlockByNumber","params":["latest",false],"params":[]}"#),
        "params_by_name_for_positional" => p(br#"{"jsonrpc":"2.0","id":1,"method":"eth_getBlockByNumber","params":{"block":"latest","is_full":false,"extra":[1,2,3]}}"#),
        "version_1_0" => p(br#"{"jsonrpc":"1.0","id":1,"method":"eth_blockNumber","params":[]}"#),
        // half a request, a pause, then the rest
        "slow_loris_partial" => {
            let body = call(1).to_string();
            let mut whole = post_head(port, body.len(), "application/json").into_bytes();
            whole.extend_from_slice(body.as_bytes());
            let (a, b) = whole.split_at(whole.len() / 2);
            vec![a.to_vec(), b.to_vec()]
        }
        _ => p(call(1).to_string().as_bytes()),
    }
}

fn send(port: u16, parts: &[Vec<u8>]) -> String {
    let Ok(mut s) = TcpStream::connect(("127.0.0.1", port)) else { return "connect failed".into() };
    s.set_read_timeout(Some(Duration::from_secs(8))).ok();
    s.set_write_timeout(Some(Duration::from_secs(8))).ok();
    for (i, part) in parts.iter().enumerate() {
        if i > 0 {
            std::thread::sleep(Duration::from_millis(300));
        }
        if s.write_all(part).is_err() {
            break;
        }
    }
    let mut buf = vec![0u8; 4096];
    match s.read(&mut buf) {
        Ok(n) => String::from_utf8_lossy(&buf[..n]).lines().next().unwrap_or("").to_string(),
        Err(e) => format!("no answer: {}", e),
    }
}

fn probe(port: u16, want_height: u64) -> Result<(), String> {
    let mut last = String::new();
    for attempt in 0..6 {
        match http::rpc(port, "eth_blockNumber", json!([]), None) {
            Ok(v) if v["result"] == json!(format!("{:#x}", want_height)) => return Ok(()),
            Ok(v) => return Err(format!("eth_blockNumber answered {}", v)),
            Err(e) => {
                last = e;
                std::thread::sleep(Duration::from_millis(200 << attempt));
            }
        }
    }
    Err(format!("no answer any more: {}", last))
}

pub fn run(frames_path: &str, out_path: &str) -> i32 {
    let frames: Vec<String> = serde_json::from_str(&std::fs::read_to_string(frames_path).expect("frames")).expect("frames json");
    let rt = tokio::runtime::Builder::new_multi_thread().worker_threads(4).enable_all().build().unwrap();
    let dir = tempfile::TempDir::new().unwrap();
    let port = http::free_port();
    let mut cfg = http::server_config(dir.path(), port, "regtest", false, None);
    cfg.batch_request_limit = BATCH_LIMIT as u32;
    cfg.max_request_size = MAX_BODY as u32;
    let handle = match rt.block_on(brc20_prog::start(cfg)) {
        Ok(h) => h,
        Err(e) => {
            eprintln!("start failed: {}", e);
            return 2;
        }
    };
    http::rpc_sure(port, "brc20_mine", json!([3, 7]), None);
    let mut height = 2u64;
    let mut violations = Vec::new();
    let mut samples = Vec::new();
    for (i, f) in frames.iter().enumerate() {
        let first_line = send(port, &bytes_for(f, port));
        if let Err(e) = probe(port, height) {
            violations.push(json!({"frame": f, "answer": first_line, "why": e}));
            break;
        }
        if i % 4 == 3 {
            let w = http::rpc(port, "brc20_mine", json!([1, 8]), None);
            height += 1;
            if w.as_ref().map(|v| v.get("error").is_some()).unwrap_or(true) {
                violations.push(json!({"frame": f, "answer": first_line, "why": format!("brc20_mine after the frame: {:?}", w)}));
                break;
            }
        }
        samples.push(json!({"frame": f, "answer": first_line}));
    }
    let _ = handle.stop();
    rt.block_on(handle.stopped());
    let bad = !violations.is_empty();
    std::fs::write(out_path, serde_json::to_string_pretty(&json!({"frames": frames.len(), "violations": violations, "answers": samples})).unwrap()).unwrap();
    if bad { 1 } else { 0 }
}
