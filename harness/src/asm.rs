//! A ~100-line EVM assembler with labels and the hand-written test contracts (no Solidity compiler here).

use std::collections::HashMap;

fn opcode(name: &str) -> Option<u8> {
    let table: &[(&str, u8)] = &[
        ("STOP", 0x00), ("ADD", 0x01), ("MUL", 0x02), ("SUB", 0x03), ("DIV", 0x04), ("LT", 0x10), ("GT", 0x11),
        ("MOD", 0x06), ("EQ", 0x14), ("ISZERO", 0x15), ("AND", 0x16), ("OR", 0x17), ("SHL", 0x1b), ("SHR", 0x1c),
        ("ADDRESS", 0x30), ("ORIGIN", 0x32), ("CALLER", 0x33), ("CALLDATALOAD", 0x35), ("CALLDATASIZE", 0x36),
        ("CALLDATACOPY", 0x37), ("CODECOPY", 0x39), ("GASPRICE", 0x3a), ("RETURNDATASIZE", 0x3d),
        ("RETURNDATACOPY", 0x3e), ("BLOCKHASH", 0x40), ("COINBASE", 0x41), ("TIMESTAMP", 0x42), ("NUMBER", 0x43),
        ("PREVRANDAO", 0x44), ("GASLIMIT", 0x45), ("CHAINID", 0x46), ("SELFBALANCE", 0x47), ("BASEFEE", 0x48),
        ("BLOBBASEFEE", 0x4a), ("CALLVALUE", 0x34),
        ("POP", 0x50), ("MLOAD", 0x51), ("MSTORE", 0x52), ("SLOAD", 0x54), ("SSTORE", 0x55), ("JUMP", 0x56),
        ("JUMPI", 0x57), ("GAS", 0x5a), ("JUMPDEST", 0x5b), ("PUSH0", 0x5f), ("LOG0", 0xa0), ("LOG1", 0xa1),
        ("LOG2", 0xa2), ("LOG3", 0xa3), ("LOG4", 0xa4), ("CREATE", 0xf0), ("CALL", 0xf1), ("RETURN", 0xf3),
        ("STATICCALL", 0xfa), ("REVERT", 0xfd), ("INVALID", 0xfe), ("SELFDESTRUCT", 0xff),
    ];
    for (n, b) in table {
        if *n == name {
            return Some(*b);
        }
    }
    if let Some(i) = name.strip_prefix("DUP") {
        let i: u8 = i.parse().ok()?;
        return Some(0x7f + i);
    }
    if let Some(i) = name.strip_prefix("SWAP") {
        let i: u8 = i.parse().ok()?;
        return Some(0x8f + i);
    }
    None
}

enum Item {
    Op(u8),
    Push(Vec<u8>),
    PushLabel(String),
    Label(String),
}

/// Tokens: `NAME` opcode, `#n` push of a number (decimal or 0x..), `@label` push of a label, `label:` jumpdest.
pub fn assemble(src: &str) -> Vec<u8> {
    let mut items = Vec::new();
    for tok in src.split_whitespace() {
        if let Some(l) = tok.strip_suffix(':') {
            items.push(Item::Label(l.to_string()));
            items.push(Item::Op(0x5b));
        } else if let Some(l) = tok.strip_prefix('@') {
            items.push(Item::PushLabel(l.to_string()));
        } else if let Some(n) = tok.strip_prefix('#') {
            let bytes: Vec<u8> = if let Some(h) = n.strip_prefix("0x") {
                let h = if h.len() % 2 == 1 { format!("0{}", h) } else { h.to_string() };
                hex::decode(h).expect("hex literal")
            } else {
                let v: u128 = n.parse().expect("number");
                let b = v.to_be_bytes();
                let first = b.iter().position(|x| *x != 0).unwrap_or(15);
                b[first..].to_vec()
            };
            let stripped: Vec<u8> = {
                let first = bytes.iter().position(|x| *x != 0);
                match first {
                    None => vec![],
                    Some(i) => bytes[i..].to_vec(),
                }
            };
            if stripped.is_empty() {
                items.push(Item::Op(0x5f));
            } else {
                items.push(Item::Push(stripped));
            }
        } else {
            items.push(Item::Op(opcode(tok).unwrap_or_else(|| panic!("unknown opcode {}", tok))));
        }
    }
    let mut pos = 0usize;
    let mut labels = HashMap::new();
    for it in &items {
        match it {
            Item::Label(l) => {
                labels.insert(l.clone(), pos);
            }
            Item::Op(_) => pos += 1,
            Item::Push(b) => pos += 1 + b.len(),
            Item::PushLabel(_) => pos += 3,
        }
    }
    let mut out = Vec::new();
    for it in &items {
        match it {
            Item::Label(_) => {}
            Item::Op(b) => out.push(*b),
            Item::Push(b) => {
                out.push(0x5f + b.len() as u8);
                out.extend_from_slice(b);
            }
            Item::PushLabel(l) => {
                out.push(0x61);
                let p = *labels.get(l).unwrap_or_else(|| panic!("unknown label {}", l)) as u16;
                out.extend_from_slice(&p.to_be_bytes());
            }
        }
    }
    out
}

/// Init code that returns `runtime` as the deployed code.
pub fn initcode(runtime: &[u8]) -> Vec<u8> {
    let n = runtime.len() as u16;
    let mut v = vec![0x61];
    v.extend_from_slice(&n.to_be_bytes());
    v.push(0x61);
    v.extend_from_slice(&13u16.to_be_bytes());
    v.extend_from_slice(&[0x5f, 0x39, 0x61]);
    v.extend_from_slice(&n.to_be_bytes());
    v.extend_from_slice(&[0x5f, 0xf3]);
    assert_eq!(v.len(), 13);
    v.extend_from_slice(runtime);
    v
}

/// byte at calldata[i + k] where i sits at stack depth d (1 = top)
fn b(d: u32, k: u32) -> String {
    format!("DUP{} #{} ADD CALLDATALOAD #248 SHR", d, k)
}

/// **Cell**: a tiny interpreter.  Calldata is a list of ops; the cursor `i` is the only stack resident.
///   01 s v        SSTORE s v
///   03            REVERT(0,0)
///   04            CREATE a child with empty runtime code
///   05 n <n bytes> CALL self with those bytes as calldata (result ignored)
///   06 n          burn gas: n*256 loop iterations
///   07 s          RETURN the word at slot s
///   08            SELFDESTRUCT(self)
///   09 a n <n bytes> STATICCALL precompile/address 0x..a; slot f0 = success+1, f1 = returndatasize+1, f2 = first word
///   0a            INVALID opcode (halt, consumes all gas)
///   0b a20 n <n bytes> CALL the 20-byte address with those bytes (result ignored)
///   0c s          SSTORE s := NUMBER (the block number the code observes)
///   0d k s        SSTORE s := ENV_k mod 999983, k = 1 GASLIMIT 2 COINBASE 3 BASEFEE 4 GASPRICE 5 BLOBBASEFEE 6 SELFBALANCE
///                 7 CALLVALUE 8 CHAINID (block/transaction environment that is fixed by the protocol)
///   0e back s     SSTORE s := 1 if BLOCKHASH(NUMBER - back) is non-zero, 2 if it is zero
///   10..14 t..    LOG0..LOG4 with 1-byte topics, no data
///   anything else STOP
pub fn cell_runtime() -> Vec<u8> {
    let src = format!(
        "
  #0
loop:
  DUP1 CALLDATASIZE GT @cont JUMPI STOP
cont:
  DUP1 CALLDATALOAD #248 SHR
  DUP1 #1 EQ @op_sstore JUMPI
  DUP1 #3 EQ @op_revert JUMPI
  DUP1 #4 EQ @op_create JUMPI
  DUP1 #5 EQ @op_sub JUMPI
  DUP1 #6 EQ @op_burn JUMPI
  DUP1 #7 EQ @op_ret JUMPI
  DUP1 #8 EQ @op_selfdestruct JUMPI
  DUP1 #9 EQ @op_static JUMPI
  DUP1 #10 EQ @op_invalid JUMPI
  DUP1 #11 EQ @op_callext JUMPI
  DUP1 #12 EQ @op_number JUMPI
  DUP1 #13 EQ @op_env JUMPI
  DUP1 #14 EQ @op_bh JUMPI
  DUP1 #0x10 EQ @op_log0 JUMPI
  DUP1 #0x11 EQ @op_log1 JUMPI
  DUP1 #0x12 EQ @op_log2 JUMPI
  DUP1 #0x13 EQ @op_log3 JUMPI
  DUP1 #0x14 EQ @op_log4 JUMPI
  STOP
op_sstore:
  POP {b12} {b21} SSTORE #3 ADD @loop JUMP
op_revert:
  #0 #0 REVERT
op_create:
  POP #0x5f5ff3 #0 MSTORE #3 #29 #0 CREATE POP #1 ADD @loop JUMP
op_sub:
  POP {b11}
  DUP1 DUP3 #2 ADD #0 CALLDATACOPY
  #0 #0 DUP3 #0 #0 ADDRESS GAS CALL POP
  ADD #2 ADD @loop JUMP
op_burn:
  POP {b11} #8 SHL
burnloop:
  DUP1 ISZERO @burndone JUMPI #1 SWAP1 SUB @burnloop JUMP
burndone:
  POP #2 ADD @loop JUMP
op_ret:
  POP {b11} SLOAD #0 MSTORE #32 #0 RETURN
op_number:
  POP NUMBER {b21} SSTORE #2 ADD @loop JUMP
op_bh:
  POP {b11} NUMBER SUB BLOCKHASH ISZERO #1 ADD {b22} SSTORE #3 ADD @loop JUMP
op_env:
  POP {b11}
  DUP1 #1 EQ @e1 JUMPI
  DUP1 #2 EQ @e2 JUMPI
  DUP1 #3 EQ @e3 JUMPI
  DUP1 #4 EQ @e4 JUMPI
  DUP1 #5 EQ @e5 JUMPI
  DUP1 #6 EQ @e6 JUMPI
  DUP1 #7 EQ @e7 JUMPI
  DUP1 #8 EQ @e8 JUMPI
  POP #0 @estore JUMP
e1:
  POP GASLIMIT @estore JUMP
e2:
  POP COINBASE @estore JUMP
e3:
  POP BASEFEE @estore JUMP
e4:
  POP GASPRICE @estore JUMP
e5:
  POP BLOBBASEFEE @estore JUMP
e6:
  POP SELFBALANCE @estore JUMP
e7:
  POP CALLVALUE @estore JUMP
e8:
  POP CHAINID @estore JUMP
estore:
  #999983 SWAP1 MOD {b22} SSTORE #3 ADD @loop JUMP
op_selfdestruct:
  ADDRESS SELFDESTRUCT
op_invalid:
  INVALID
op_static:
  POP {b12}
  DUP1 DUP3 #3 ADD #0 CALLDATACOPY
  #32 #0x100 DUP3 #0 {b61} GAS STATICCALL
  #1 ADD #0xf0 SSTORE
  RETURNDATASIZE #1 ADD #0xf1 SSTORE
  #0x100 MLOAD #0xf2 SSTORE
  ADD #3 ADD @loop JUMP
op_callext:
  POP {b1_21}
  DUP1 DUP3 #22 ADD #0 CALLDATACOPY
  #0 #0 DUP3 #0 #0 DUP7 #1 ADD CALLDATALOAD #96 SHR GAS CALL POP
  ADD #22 ADD @loop JUMP
op_log0:
  POP #0 #0 LOG0 #1 ADD @loop JUMP
op_log1:
  POP {b11} #0 #0 LOG1 #2 ADD @loop JUMP
op_log2:
  POP {b12} {b21} #0 #0 LOG2 #3 ADD @loop JUMP
op_log3:
  POP {b13} {b22} {b31} #0 #0 LOG3 #4 ADD @loop JUMP
op_log4:
  POP {b14} {b23} {b32} {b41} #0 #0 LOG4 #5 ADD @loop JUMP
",
        b11 = b(1, 1),
        b12 = b(1, 2),
        b21 = b(2, 1),
        b13 = b(1, 3),
        b22 = b(2, 2),
        b31 = b(3, 1),
        b14 = b(1, 4),
        b23 = b(2, 3),
        b32 = b(3, 2),
        b41 = b(4, 1),
        b61 = b(6, 1),
        b1_21 = b(1, 21),
    );
    assemble(&src)
}

/// **Probe** (C19): stores the execution context in slots 1.. and returns nothing.
///   1 NUMBER 2 TIMESTAMP 3 PREVRANDAO 4 CHAINID 5 BASEFEE 6 GASPRICE 7 COINBASE 8 CALLER 9 ORIGIN
///   10..13 BLOCKHASH(n-1), (n-2), (n-3), (n-256)   14 BLOCKHASH(n-257)
///   15 success flag + 1 of STATICCALL 0xfa getTxId()   16 returndatasize + 1   17 first word
///   18 a run counter (every execution that is part of the state adds one; Brc20Ref.ProbeWrite)
pub fn probe_runtime() -> Vec<u8> {
    let mut src = String::new();
    let simple = [
        (1, "NUMBER"), (2, "TIMESTAMP"), (3, "PREVRANDAO"), (4, "CHAINID"), (5, "BASEFEE"), (6, "GASPRICE"),
        (7, "COINBASE"), (8, "CALLER"), (9, "ORIGIN"),
    ];
    for (slot, op) in simple {
        src.push_str(&format!("{} #{} SSTORE\n", op, slot));
    }
    for (slot, back) in [(10, 1u32), (11, 2), (12, 3), (13, 256), (14, 257)] {
        // BLOCKHASH(NUMBER - back) ; if NUMBER < back the subtraction wraps and BLOCKHASH gives 0
        src.push_str(&format!("#{} NUMBER SUB BLOCKHASH #{} SSTORE\n", back, slot));
    }
    // getTxId() selector on the helper at 0x..fa: function getTxId() returns (bytes32)
    src.push_str("#0xSELECTOR #224 SHL #0 MSTORE\n");
    src.push_str("#32 #0x40 #4 #0 #0xfa GAS STATICCALL #1 ADD #15 SSTORE\n");
    src.push_str("RETURNDATASIZE #1 ADD #16 SSTORE\n");
    src.push_str("#0x40 MLOAD #17 SSTORE\n");
    src.push_str("#18 SLOAD #1 ADD #18 SSTORE\n");
    src.push_str("STOP\n");
    let sel = hex::encode(&alloy::primitives::keccak256(b"getTxId()")[0..4]);
    assemble(&src.replace("SELECTOR", &sel))
}

/// Encodes an abstract op list (JSON) as Cell calldata.
pub fn encode_ops(ops: &serde_json::Value) -> Vec<u8> {
    let mut out = Vec::new();
    for op in ops.as_array().map(|v| v.as_slice()).unwrap_or(&[]) {
        let name = op["op"].as_str().unwrap_or("");
        let byte = |k: &str| op[k].as_u64().unwrap_or(0) as u8;
        match name {
            "sstore" => out.extend_from_slice(&[1, byte("s"), byte("v")]),
            "revert" => out.push(3),
            "create" => out.push(4),
            "sub" => {
                let inner = encode_ops(&op["ops"]);
                assert!(inner.len() < 256);
                out.push(5);
                out.push(inner.len() as u8);
                out.extend_from_slice(&inner);
            }
            "burn" => out.extend_from_slice(&[6, byte("n")]),
            "ret" => out.extend_from_slice(&[7, byte("s")]),
            "selfdestruct" => out.push(8),
            "static" => {
                let data = hex::decode(op["data"].as_str().unwrap_or("")).unwrap_or_default();
                assert!(data.len() < 256);
                out.extend_from_slice(&[9, byte("a"), data.len() as u8]);
                out.extend_from_slice(&data);
            }
            "invalid" => out.push(10),
            "number" => out.extend_from_slice(&[12, byte("s")]),
            "env" => out.extend_from_slice(&[13, byte("k"), byte("s")]),
            "bh" => out.extend_from_slice(&[14, byte("back"), byte("s")]),
            // the callee's address is resolved by the player into `addr` (20 bytes, hex) before encoding
            "callext" => {
                let inner = encode_ops(&op["ops"]);
                assert!(inner.len() < 256);
                let addr = hex::decode(op["addr"].as_str().unwrap_or("").trim_start_matches("0x")).unwrap_or_default();
                assert_eq!(addr.len(), 20, "callext without a resolved address");
                out.push(11);
                out.extend_from_slice(&addr);
                out.push(inner.len() as u8);
                out.extend_from_slice(&inner);
            }
            "log" => {
                let topics = op["t"].as_array().cloned().unwrap_or_default();
                out.push(0x10 + topics.len() as u8);
                for t in topics {
                    out.push(t.as_u64().unwrap_or(0) as u8);
                }
            }
            "stop" => out.push(0),
            // STOP followed by n bytes the interpreter never reads: long calldata that costs intrinsic gas only
            "pad" => {
                out.push(0);
                out.extend(std::iter::repeat(byte("b")).take(op["n"].as_u64().unwrap_or(0) as usize));
            }
            _ => out.push(0),
        }
    }
    out
}
