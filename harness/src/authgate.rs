//! C12: the whole AuthGate decision table replayed against a real server started through the public `start()`.

use serde_json::{json, Value};

use crate::http;
use crate::methods::{self, Ctx};
use crate::names;

const USER: &str = "indexer";
const PASS: &str = "s3cret";

impl Srv {
    const TS: u64 = 4242;
}

struct Srv {
    port: u16,
    creds: String,
    hctr: u64,
    cell: String,
    signer_nonce_hint: u64,
}

fn u64_of(v: &Value) -> Option<u64> {
    u64::from_str_radix(v.as_str()?.trim_start_matches("0x"), 16).ok()
}

impl Srv {
    fn call(&self, method: &str, params: Value) -> Value {
        http::rpc_sure(self.port, method, params, Some(&self.creds))
    }
    fn height(&self) -> u64 {
        u64_of(&self.call("eth_blockNumber", json!([]))["result"]).unwrap_or(0)
    }
    fn fresh_hash(&mut self) -> String {
        self.hctr += 1;
        format!("{:#x}", names::hash_of_token(&format!("h{}", 5000 + self.hctr), 0))
    }
    fn waiting(&self) -> bool {
        let h = self.height();
        !self.call("eth_getTransactionByBlockNumberAndIndex", json!([h + 1, 0]))["result"].is_null()
    }
    /// back to a block boundary (finalise whatever is under construction)
    fn settle(&mut self) {
        let h = self.height();
        let t = self.call("eth_getTransactionByBlockNumberAndIndex", json!([h + 1, 0]));
        if !t["result"].is_null() {
            // count the waiting transactions
            let mut n = 1;
            while !self.call("eth_getTransactionByBlockNumberAndIndex", json!([h + 1, n]))["result"].is_null() {
                n += 1;
            }
            let bh = t["result"]["blockHash"].clone();
            let blk_ts = Srv::TS;
            let r = self.call("brc20_finaliseBlock", json!([blk_ts, bh, n]));
            if r.get("error").is_some() {
                self.call("brc20_clearCaches", json!([]));
            }
        }
    }
    fn digest(&self) -> Value {
        let h = self.height();
        json!([
            h,
            self.call("eth_getBlockByNumber", json!(["latest", false]))["result"]["hash"],
            self.call("eth_getTransactionByBlockNumberAndIndex", json!([h + 1, 0]))["result"]["hash"],
            self.call("txpool_content", json!([]))["result"],
            self.call("eth_getTransactionCount", json!([format!("{:#x}", names::Names::new().addr("s1").unwrap()), "latest"]))["result"],
            self.call("eth_getStorageAt", json!([self.cell, "0x5"]))["result"],
        ])
    }
}

fn header_value(h: &str) -> Option<String> {
    match h {
        "none" => None,
        "wronguser" => Some(http::basic("intruder", PASS)),
        "wrongpass" => Some(http::basic(USER, "guess")),
        "malformed" => Some("Basic !!!not-base64!!!".to_string()),
        "empty" => Some(String::new()),
        "scheme_only" => Some("Basic".to_string()),
        "truncated" => {
            let mut c = http::basic(USER, PASS);
            c.pop();
            Some(c)
        }
        "extended" => Some(format!("{}A", http::basic(USER, PASS))),
        "token_case_folded" => {
            let c = http::basic(USER, PASS);
            let (scheme, token) = c.split_once(' ').unwrap_or(("Basic", ""));
            assert_ne!(token, token.to_lowercase(), "the test credentials must have upper-case letters in their base64 form");
            Some(format!("{} {}", scheme, token.to_lowercase()))
        }
        _ => Some(http::basic(USER, PASS)),
    }
}

fn classify(v: &Value) -> &'static str {
    if v.is_null() {
        return "none";
    }
    if let Some(e) = v.get("error") {
        if e["code"].as_i64() == Some(401) || e["message"].as_str().map(|m| m.contains("Unauthorized")).unwrap_or(false) {
            return "unauthorized";
        }
    }
    "answer"
}

pub fn run(cases_path: &str, out_path: &str, only: Option<bool>) -> i32 {
    let cases: Vec<Value> = serde_json::from_str(&std::fs::read_to_string(cases_path).expect("cases")).expect("cases json");
    let rt = tokio::runtime::Builder::new_multi_thread().worker_threads(4).enable_all().build().unwrap();
    let mut results = Vec::new();
    let mut violations = Vec::new();
    let mut executed_n = 0u64;
    let mut refused_n = 0u64;
    for auth_on in [true, false] {
        if only.is_some() && only != Some(auth_on) {
            continue;
        }
        let dir = tempfile::TempDir::new().unwrap();
        let port = http::free_port();
        let cfg = http::server_config(dir.path(), port, "regtest", true, if auth_on { Some((USER, PASS)) } else { None });
        let handle = match rt.block_on(brc20_prog::start(cfg)) {
            Ok(h) => h,
            Err(e) => {
                eprintln!("start failed: {}", e);
                return 2;
            }
        };
        let mut s = Srv { port, creds: http::basic(USER, PASS), hctr: 0, cell: String::new(), signer_nonce_hint: 0 };
        // a small populated state, built with credentials
        let ts = Srv::TS;
        let g = s.fresh_hash();
        s.call("brc20_initialise", json!([g, ts, 0]));
        let h1 = s.fresh_hash();
        let pk = names::pkscript("s1");
        let code = format!("0x{}", hex::encode(crate::asm::initcode(&crate::asm::cell_runtime())));
        let rc = s.call("brc20_deploy", json!({"from_pkscript": pk, "data": code, "timestamp": ts, "hash": h1, "tx_idx": 0,
            "inscription_id": "auth-i1", "inscription_byte_len": 100000, "op_return_tx_id": format!("0x{}", "00".repeat(32))}));
        s.cell = rc["result"]["contractAddress"].as_str().unwrap_or("").to_string();
        s.call("brc20_deposit", json!({"to_pkscript": pk, "ticker": "ordi", "amount": "0x64", "timestamp": ts, "hash": h1, "tx_idx": 1, "inscription_id": "auth-i2"}));
        s.call("brc20_finaliseBlock", json!([ts, h1, 2]));
        s.call("brc20_commitToDatabase", json!([]));
        if s.cell.is_empty() {
            eprintln!("could not prepare the server state: {}", rc);
            return 2;
        }
        let signer = names::signer_key("k1");
        let mut names_tbl = names::Names::new();
        let cell_addr: alloy::primitives::Address = s.cell.parse().unwrap();
        names_tbl.bind("authcell", cell_addr);
        for case in cases.iter().filter(|c| c["auth"].as_bool() == Some(auth_on)) {
            let method = case["method"].as_str().unwrap_or("");
            let form = case["form"].as_str().unwrap_or("call");
            let header = case["header"].as_str().unwrap_or("none");
            s.settle();
            // preparation so that an execution is visible
            if method == "brc20_clearCaches" {
                s.call("brc20_commitToDatabase", json!([]));
                s.call("brc20_mine", json!([1, ts]));
            }
            if method == "brc20_reorg" {
                s.call("brc20_mine", json!([1, ts]));
                s.call("brc20_commitToDatabase", json!([]));
            }
            let height = s.height();
            let nonce = u64_of(&s.call("eth_getTransactionCount", json!([format!("{:#x}", signer.address()), "latest"]))["result"]).unwrap_or(0);
            let raw = {
                use alloy_consensus::{SignableTransaction, TxLegacy};
                use alloy_signer::SignerSync;
                let tx = TxLegacy { chain_id: Some(0x425243323073), nonce, gas_price: 0, gas_limit: 0,
                    to: alloy::primitives::TxKind::Call(cell_addr), value: alloy::primitives::U256::ZERO,
                    input: vec![1u8, 5, (s.hctr % 200) as u8 + 1].into() };
                let sig = signer.sign_hash_sync(&tx.signature_hash()).unwrap();
                let mut raw = Vec::new();
                tx.into_signed(sig).rlp_encode(&mut raw);
                raw
            };
            s.signer_nonce_hint = nonce;
            let ctx = Ctx {
                pk: pk.clone(),
                contract: s.cell.clone(),
                tx_hash: rc["result"]["transactionHash"].as_str().unwrap_or("").to_string(),
                block_hash: h1.clone(),
                next_hash: s.fresh_hash(),
                next_ts: ts,
                next_idx: 0,
                height,
                raw_tx: format!("0x{}", hex::encode(raw)),
                signer: format!("{:#x}", signer.address()),
                insc: format!("auth-c{}", s.hctr),
            };
            let mut params = methods::params(method, &ctx);
            if method == "brc20_initialise" {
                params = json!([g, ts, 0]);
            }
            if method == "brc20_finaliseBlock" {
                params = json!([ts, ctx.next_hash, 0]);
            }
            if method == "brc20_reorg" {
                params = json!([height - 1]);
            }
            let before = s.digest();
            let hv = header_value(header);
            let target_call = json!({"jsonrpc": "2.0", "id": 77, "method": method, "params": params});
            let target_note = json!({"jsonrpc": "2.0", "method": method, "params": params});
            let read_a = json!({"jsonrpc": "2.0", "id": 1, "method": "eth_blockNumber", "params": []});
            let read_b = json!({"jsonrpc": "2.0", "id": 2, "method": "eth_chainId", "params": []});
            let body = match form {
                "call" => target_call.to_string(),
                "notification" => target_note.to_string(),
                "batch_first" => json!([target_call, read_a, read_b]).to_string(),
                "batch_mid" => json!([read_a, target_call, read_b]).to_string(),
                "batch_last" => json!([read_a, read_b, target_call]).to_string(),
                "batch_after_invalid" => json!([1, {"foo": "bar"}, read_a, target_call, read_b]).to_string(),
                "batch_before_invalid" => json!([read_a, target_call, {"foo": "bar"}, 1, read_b]).to_string(),
                _ => json!([read_a, target_note, read_b]).to_string(),
            };
            let transport = case["transport"].as_str().unwrap_or("http");
            let mut attempt = 0;
            let (status, text) = loop {
                attempt += 1;
                let (status, text) = if transport == "ws" {
                match http::ws_exchange(port, &body, hv.as_deref(), form != "notification") {
                    // one request frame has at most one reply frame (a batch is answered by one array)
                    Ok((st, frames)) => (st, frames.into_iter().next().unwrap_or_default()),
                    Err(e) => (0, e),
                }
            } else {
                match http::post(port, &body, hv.as_deref()) {
                    Ok(x) => x,
                    Err(e) => (0, e),
                }
            };
                // status 0: the connection itself failed (loaded machine): not an answer of the gate; try again
                if status != 0 {
                    break (status, text);
                }
                if attempt >= 5 {
                    eprintln!("TOOL ERROR: no connection to the server under test after {} attempts: {}", attempt, text);
                    return 2;
                }
                std::thread::sleep(std::time::Duration::from_millis(200 * attempt));
            };
            if transport == "ws" && status != 101 {
                violations.push(json!({"case": case, "reply": "no-upgrade", "changed": false,
                    "why": [format!("the WebSocket upgrade was answered with http {}", status)], "body": text.chars().take(300).collect::<String>()}));
                continue;
            }
            let parsed: Value = serde_json::from_str(&text).unwrap_or(Value::Null);
            let mut reads_ok = true;
            let reply = if form.starts_with("batch") {
                let arr = parsed.as_array().cloned().unwrap_or_default();
                let mut r = "none";
                for e in &arr {
                    if e["id"] == json!(77) || (form == "batch_notification" && e["id"] != json!(1) && e["id"] != json!(2)) {
                        r = classify(e);
                    }
                }
                for id in [1, 2] {
                    let ok = arr.iter().any(|e| e["id"] == json!(id) && e.get("result").is_some());
                    reads_ok &= ok;
                }
                r
            } else {
                classify(&parsed)
            };
            let after = s.digest();
            let changed = before != after;
            let exp = case["executed"].as_str().unwrap_or("no");
            let exp_exec = exp != "no";
            let mutating = case["mutating"].as_bool().unwrap_or(false);
            let visible = matches!(method, "brc20_mine" | "brc20_finaliseBlock" | "brc20_deploy" | "brc20_call" | "brc20_deposit"
                | "brc20_withdraw" | "brc20_transact" | "brc20_reorg" | "brc20_clearCaches");
            let mut why = Vec::new();
            if !exp_exec {
                refused_n += 1;
                if changed {
                    why.push("state changed although the request must be refused".to_string());
                }
                if reply == "answer" {
                    why.push("the method answered although the request must be refused".to_string());
                }
                if form != "notification" && form != "batch_notification" && reply != "unauthorized" {
                    why.push(format!("expected an Unauthorized error, got {}", reply));
                }
            } else {
                executed_n += 1;
                if reply == "unauthorized" {
                    why.push("refused although it must be served".to_string());
                }
                if form != "notification" && form != "batch_notification" && reply != "answer" {
                    why.push(format!("expected an answer, got {} (http {})", reply, status));
                }
                if visible && !changed && exp == "yes" {
                    why.push("no effect although the call must have been executed".to_string());
                }
                if !mutating && changed {
                    why.push("a method outside the protected set changed the state".to_string());
                }
            }
            if form.starts_with("batch") && !reads_ok {
                why.push("a permitted read in the same batch was not answered".to_string());
            }
            if !why.is_empty() && violations.len() < 40 {
                violations.push(json!({"case": case, "reply": reply, "changed": changed, "why": why, "body": text.chars().take(300).collect::<String>()}));
            }
            if results.len() < 6 {
                results.push(json!({"case": case, "reply": reply, "changed": changed}));
            }
        }
        let _ = handle.stop();
        rt.block_on(handle.stopped());
        std::thread::sleep(std::time::Duration::from_millis(200));
    }
    let bad = !violations.is_empty();
    let report = json!({"cases": cases.iter().filter(|c| only.is_none() || c["auth"].as_bool() == only).count(), "expected_executed": executed_n, "expected_refused": refused_n,
                        "violations": violations, "samples": results});
    std::fs::write(out_path, serde_json::to_string_pretty(&report).unwrap()).unwrap();
    if bad { 1 } else { 0 }
}
