//! C20: the ConfigGate decision table replayed through the public `start()`.

use std::path::Path;

use serde_json::{json, Value};

use crate::http;

fn enc(s: &str) -> Vec<u8> {
    let mut v = (s.len() as u32).to_be_bytes().to_vec();
    v.extend_from_slice(s.as_bytes());
    v
}

fn tamper(dir: &Path, t: &str) -> Result<(), String> {
    if t == "none" {
        return Ok(());
    }
    let mut opts = rocksdb::Options::default();
    opts.create_if_missing(false);
    let db = rocksdb::DB::open(&opts, dir.join("config")).map_err(|e| e.to_string())?;
    if let Some(row) = t.strip_prefix("del_") {
        db.delete(enc(row)).map_err(|e| e.to_string())?;
    } else if let Some(row) = t.strip_prefix("alt_") {
        let old = db.get(enc(row)).map_err(|e| e.to_string())?.ok_or("row missing")?;
        let old_s = String::from_utf8_lossy(&old[4..]).to_string();
        let new_s = match old_s.as_str() {
            "true" => "false".to_string(),
            "false" => "true".to_string(),
            x => match x.parse::<u64>() {
                Ok(n) => (n + 1).to_string(),
                Err(_) => format!("{}x", x),
            },
        };
        db.put(enc(row), enc(&new_s)).map_err(|e| e.to_string())?;
    }
    db.flush().map_err(|e| e.to_string())?;
    drop(db);
    Ok(())
}

fn digest(port: u16) -> Value {
    let h = http::rpc_sure(port, "eth_blockNumber", json!([]), None);
    let b = http::rpc_sure(port, "eth_getBlockByNumber", json!(["latest", false]), None);
    let c = http::rpc_sure(port, "eth_getCode", json!([crate::names::CONTROLLER]), None);
    json!([h["result"], b["result"]["hash"], c["result"].as_str().map(|s| s.len())])
}

pub fn run(cases_path: &str, out_path: &str) -> i32 {
    let cases: Vec<Value> = serde_json::from_str(&std::fs::read_to_string(cases_path).expect("cases")).expect("json");
    let rt = tokio::runtime::Builder::new_multi_thread().worker_threads(2).enable_all().build().unwrap();
    let mut violations = Vec::new();
    let mut samples = Vec::new();
    let mut started = 0u64;
    let mut failed = 0u64;
    for case in &cases {
        let kind = case["kind"].as_str().unwrap_or("");
        let tmp = tempfile::TempDir::new().unwrap();
        let dir = match kind {
            "absent" => tmp.path().join("does-not-exist-yet"),
            _ => tmp.path().to_path_buf(),
        };
        let mut before = Value::Null;
        if kind == "foreign" {
            std::fs::write(dir.join("README.txt"), b"not a brc20-prog database").unwrap();
            std::fs::create_dir_all(dir.join("lost+found")).unwrap();
        }
        if kind == "created" {
            let port = http::free_port();
            let cfg = http::server_config(&dir, port, case["cnet"].as_str().unwrap_or("regtest"), case["ctraces"].as_bool().unwrap_or(false), None);
            let mut created = rt.block_on(brc20_prog::start(cfg.clone()));
            let mut port = port;
            for _ in 0..20 {
                match &created {
                    Err(e) if e.to_string().contains("in use") => {
                        port = http::free_port();
                        let mut c2 = cfg.clone();
                        c2.brc20_prog_rpc_server_url = format!("127.0.0.1:{}", port);
                        created = rt.block_on(brc20_prog::start(c2));
                    }
                    _ => break,
                }
            }
            match created {
                Ok(h) => {
                    if case["fill"] == json!("populated") {
                        let g = format!("0x{}", "ab".repeat(32));
                        let _ = http::rpc_sure(port, "brc20_initialise", json!([g, 7, 0]), None);
                        let _ = http::rpc_sure(port, "brc20_mine", json!([2, 8]), None);
                        let _ = http::rpc_sure(port, "brc20_commitToDatabase", json!([]), None);
                    }
                    before = digest(port);
                    let _ = h.stop();
                    rt.block_on(h.stopped());
                }
                Err(e) => {
                    violations.push(json!({"case": case, "why": format!("creating the database failed: {}", e)}));
                    continue;
                }
            }
            // wait until RocksDB released its lock files
            for _ in 0..50 {
                if tamper(&dir, "none").is_ok() && rocksdb::DB::open_for_read_only(&rocksdb::Options::default(), dir.join("config"), false).is_ok() {
                    break;
                }
                std::thread::sleep(std::time::Duration::from_millis(20));
            }
            let t = case["tamper"].as_str().unwrap_or("none");
            let mut ok = Err("".to_string());
            for _ in 0..50 {
                ok = tamper(&dir, t);
                if ok.is_ok() {
                    break;
                }
                std::thread::sleep(std::time::Duration::from_millis(20));
            }
            if let Err(e) = ok {
                eprintln!("tamper failed: {}", e);
                return 2;
            }
        }
        let mut port = http::free_port();
        let mut cfg = http::server_config(&dir, port, case["onet"].as_str().unwrap_or("regtest"), case["otraces"].as_bool().unwrap_or(false), None);
        let mut outcome = "fails".to_string();
        let mut detail = String::new();
        let mut same = true;
        let mut res = rt.block_on(brc20_prog::start(cfg.clone()));
        // a lock still held by the previous instance is an artefact of the harness, not an outcome
        for _ in 0..40 {
            match &res {
                Err(e) if e.to_string().contains("lock") || e.to_string().contains("LOCK") => {
                    std::thread::sleep(std::time::Duration::from_millis(25));
                    res = rt.block_on(brc20_prog::start(cfg.clone()));
                }
                Err(e) if e.to_string().contains("in use") => {
                    port = http::free_port();
                    cfg.brc20_prog_rpc_server_url = format!("127.0.0.1:{}", port);
                    res = rt.block_on(brc20_prog::start(cfg.clone()));
                }
                _ => break,
            }
        }
        match res {
            Ok(h) => {
                outcome = "starts".into();
                let after = digest(port);
                same = kind != "created" || after == before;
                if !same {
                    detail = format!("state before {} after {}", before, after);
                }
                let _ = h.stop();
                rt.block_on(h.stopped());
                started += 1;
            }
            Err(e) => {
                detail = e.to_string();
                failed += 1;
            }
        }
        let exp = case["expect"].as_str().unwrap_or("");
        let ok = match exp {
            "starts" => outcome == "starts",
            "starts_same_state" => outcome == "starts" && same,
            "fails" => outcome == "fails",
            _ => outcome == "fails" || same,
        };
        if !ok && violations.len() < 40 {
            violations.push(json!({"case": case, "outcome": outcome, "same_state": same, "detail": detail}));
        }
        if samples.len() < 5 {
            samples.push(json!({"case": case, "outcome": outcome}));
        }
    }
    let bad = !violations.is_empty();
    let report = json!({"cases": cases.len(), "started": started, "failed": failed, "violations": violations, "samples": samples});
    std::fs::write(out_path, serde_json::to_string_pretty(&report).unwrap()).unwrap();
    if bad { 1 } else { 0 }
}
