//! SatLoc.tla cases replayed on the real helper contracts 0x..fc / 0x..fd through eth_callMany with client-supplied
//! Bitcoin transactions (`bitcoinTxHexes`): one request per case and precompile, the ABI answer decoded and compared
//! with the answer the specification computed; a read probe and a write probe keep watch on the engine.

use std::collections::BTreeMap;

use bitcoin::absolute::LockTime;
use bitcoin::hashes::Hash;
use bitcoin::transaction::Version;
use bitcoin::{Amount, OutPoint, ScriptBuf, Sequence, Transaction, TxIn, TxOut, Txid, Witness};
use serde_json::{json, Value};

use crate::inst::{Instance, Outcome};

fn key_of(tx: &Transaction) -> [u8; 32] {
    let mut k = *tx.compute_txid().as_raw_hash().as_byte_array();
    k.reverse();
    k
}

fn txin(op: OutPoint) -> TxIn {
    TxIn { previous_output: op, script_sig: ScriptBuf::new(), sequence: Sequence::MAX, witness: Witness::new() }
}

struct Graph {
    t: Transaction,
    hexes: BTreeMap<String, String>,
    /// per input: (key of the parent as the contract reports it, vout, script of the spent output)
    parents: Vec<Option<([u8; 32], u32, Vec<u8>)>>,
}

fn build(case: &Value) -> Graph {
    let mut hexes = BTreeMap::new();
    let mut parents = Vec::new();
    let mut inputs = Vec::new();
    for (i, d) in case["ins"].as_array().cloned().unwrap_or_default().iter().enumerate() {
        let kind = d["kind"].as_str().unwrap_or("known");
        if kind == "null" {
            inputs.push(txin(OutPoint::null()));
            parents.push(None);
            continue;
        }
        let val = d["val"].as_u64().unwrap_or(0);
        let script = vec![0x51u8, 0x20 + i as u8];
        let parent = Transaction {
            version: Version::TWO,
            lock_time: LockTime::ZERO,
            input: vec![txin(OutPoint { txid: Txid::from_byte_array([i as u8 + 1; 32]), vout: 0 })],
            output: vec![
                TxOut { value: Amount::from_sat(9000 + i as u64), script_pubkey: ScriptBuf::from_bytes(vec![0x53]) },
                TxOut { value: Amount::from_sat(val), script_pubkey: ScriptBuf::from_bytes(script.clone()) },
            ],
        };
        let vout = if kind == "badvout" { 5 } else { 1 };
        inputs.push(txin(OutPoint { txid: parent.compute_txid(), vout }));
        hexes.insert(format!("0x{}", hex::encode(key_of(&parent))), format!("0x{}", hex::encode(bitcoin::consensus::serialize(&parent))));
        parents.push(Some((key_of(&parent), vout, script)));
    }
    let outputs: Vec<TxOut> = case["outs"].as_array().cloned().unwrap_or_default().iter().enumerate()
        .map(|(j, v)| TxOut { value: Amount::from_sat(v.as_u64().unwrap_or(0)), script_pubkey: ScriptBuf::from_bytes(vec![0x52, j as u8]) })
        .collect();
    let t = Transaction { version: Version::TWO, lock_time: LockTime::ZERO, input: inputs, output: outputs };
    hexes.insert(format!("0x{}", hex::encode(key_of(&t))), format!("0x{}", hex::encode(bitcoin::consensus::serialize(&t))));
    Graph { t, hexes, parents }
}

fn word(n: u64) -> [u8; 32] {
    let mut w = [0u8; 32];
    w[24..].copy_from_slice(&n.to_be_bytes());
    w
}

fn rd(b: &[u8], at: usize) -> Option<u64> {
    let w = b.get(at..at + 32)?;
    if w[..24].iter().any(|x| *x != 0) {
        return None;
    }
    Some(u64::from_be_bytes(w[24..].try_into().ok()?))
}

fn rd_bytes(b: &[u8], at: usize) -> Option<Vec<u8>> {
    let n = rd(b, at)? as usize;
    b.get(at + 32..at + 32 + n).map(|x| x.to_vec())
}

fn rd_words(b: &[u8], at: usize) -> Option<Vec<u64>> {
    let n = rd(b, at)? as usize;
    (0..n).map(|i| rd(b, at + 32 + 32 * i)).collect()
}

fn call(inst: &mut Instance, to: &str, data: &[u8], hexes: &BTreeMap<String, String>) -> Outcome {
    inst.call("eth_callMany", json!([[{"from": "0x0000000000000000000000000000000000000123", "to": to, "data": format!("0x{}", hex::encode(data))}],
        "latest", {"opReturnTxIds": [], "bitcoinTxHexes": hexes}]))
}

pub fn run(cases_path: &str, out_path: &str) -> i32 {
    let cases: Vec<Value> = serde_json::from_str(&std::fs::read_to_string(cases_path).expect("cases")).expect("cases json");
    let rt = crate::inst::runtime();
    let dir = tempfile::TempDir::new().unwrap();
    brc20_prog::verif::set_config(crate::inst::config("regtest", false, dir.path()));
    let mut inst = match Instance::open(rt, dir.path()) {
        Ok(i) => i,
        Err(e) => {
            eprintln!("open: {}", e);
            return 2;
        }
    };
    inst.call("brc20_mine", json!([2, 42]));
    let sel_loc = &alloy::primitives::keccak256(b"getLastSatLocation(bytes32,uint256,uint256)")[0..4];
    let sel_det = &alloy::primitives::keccak256(b"getTxDetails(bytes32)")[0..4];
    let mut violations = Vec::new();
    let (mut n_ok, mut n_err, mut requests) = (0u64, 0u64, 0u64);
    let mut samples = Vec::new();
    let mut height = 1u64;
    for (ci, case) in cases.iter().enumerate() {
        let g = build(case);
        let tkey = key_of(&g.t);
        // ---- getLastSatLocation
        let mut data = sel_loc.to_vec();
        data.extend_from_slice(&tkey);
        data.extend_from_slice(&word(case["vout"].as_u64().unwrap_or(0)));
        data.extend_from_slice(&word(case["sat"].as_u64().unwrap_or(0)));
        let r = call(&mut inst, "0x00000000000000000000000000000000000000fc", &data, &g.hexes);
        requests += 1;
        let want = &case["loc"];
        let mut why = Vec::new();
        let mut kind = "mismatch";
        match &r {
            Outcome::Panic(m) => {
                kind = "panic";
                why.push(format!("getLastSatLocation panicked: {}", m));
            }
            Outcome::Timeout => {
                kind = "hang";
                why.push("getLastSatLocation did not terminate".to_string());
            }
            Outcome::Err { message, .. } => {
                n_err += 1;
                if want["ok"] == json!(true) {
                    why.push(format!("expected input {} offset {}, got the error {}", want["vin"], want["off"], message));
                }
            }
            Outcome::Ok(v) => {
                let outs = v.as_array().cloned().unwrap_or_default();
                let b = hex::decode(outs.first().and_then(|x| x.as_str()).unwrap_or("0x").trim_start_matches("0x")).unwrap_or_default();
                if want["ok"] != json!(true) {
                    // a failed call inside eth_callMany may be reported as an empty / non-ABI output rather than an RPC error
                    if b.len() >= 160 {
                        why.push(format!("expected the error '{}', got a location", want["why"]));
                    } else {
                        n_err += 1;
                    }
                } else {
                    n_ok += 1;
                    let i = want["vin"].as_u64().unwrap_or(1) as usize - 1;
                    let exp = g.parents.get(i).cloned().flatten();
                    let got_txid = b.get(0..32).map(|x| x.to_vec());
                    let got_vout = rd(&b, 32);
                    let got_sat = rd(&b, 64);
                    let old = rd(&b, 96).and_then(|o| rd_bytes(&b, o as usize));
                    let new = rd(&b, 128).and_then(|o| rd_bytes(&b, o as usize));
                    match exp {
                        None => why.push("the specification names an input without parent".to_string()),
                        Some((k, vout, script)) => {
                            if got_txid != Some(k.to_vec()) || got_vout != Some(vout as u64) {
                                why.push(format!("located in another input than input {}", i + 1));
                            }
                            if got_sat != want["off"].as_u64() {
                                why.push(format!("offset {:?}, expected {}", got_sat, want["off"]));
                            }
                            if old != Some(script) {
                                why.push("old pkscript is not the spent output's script".to_string());
                            }
                            if new != Some(vec![0x52, case["vout"].as_u64().unwrap_or(0) as u8]) {
                                why.push("new pkscript is not the queried output's script".to_string());
                            }
                        }
                    }
                }
            }
        }
        if !why.is_empty() && violations.len() < 40 {
            violations.push(json!({"kind": kind, "fn": "getLastSatLocation", "case": case, "why": why}));
        }
        // ---- getTxDetails
        let mut data = sel_det.to_vec();
        data.extend_from_slice(&tkey);
        let r = call(&mut inst, "0x00000000000000000000000000000000000000fd", &data, &g.hexes);
        requests += 1;
        let want = &case["det"];
        let mut why = Vec::new();
        let mut kind = "mismatch";
        match &r {
            Outcome::Panic(m) => {
                kind = "panic";
                why.push(format!("getTxDetails panicked: {}", m));
            }
            Outcome::Timeout => {
                kind = "hang";
                why.push("getTxDetails did not terminate".to_string());
            }
            Outcome::Err { message, .. } => {
                if want["ok"] == json!(true) {
                    why.push(format!("expected details, got the error {}", message));
                }
            }
            Outcome::Ok(v) => {
                let outs = v.as_array().cloned().unwrap_or_default();
                let b = hex::decode(outs.first().and_then(|x| x.as_str()).unwrap_or("0x").trim_start_matches("0x")).unwrap_or_default();
                if want["ok"] != json!(true) {
                    if b.len() >= 224 {
                        why.push("expected an error, got details".to_string());
                    }
                } else {
                    let vin_vals = rd(&b, 128).and_then(|o| rd_words(&b, o as usize));
                    let vout_vals = rd(&b, 192).and_then(|o| rd_words(&b, o as usize));
                    let vin_vouts = rd(&b, 64).and_then(|o| rd_words(&b, o as usize));
                    let exp_in: Vec<u64> = want["vin"].as_array().cloned().unwrap_or_default().iter().filter_map(|x| x.as_u64()).collect();
                    let exp_out: Vec<u64> = want["vout"].as_array().cloned().unwrap_or_default().iter().filter_map(|x| x.as_u64()).collect();
                    if rd(&b, 0) != Some(0) {
                        why.push("block height of a supplied transaction is not 0".to_string());
                    }
                    if vin_vals != Some(exp_in.clone()) || vout_vals != Some(exp_out) || vin_vouts != Some(vec![1; exp_in.len()]) {
                        why.push(format!("details differ: vin values {:?}, vout values {:?}, vin vouts {:?}", vin_vals, vout_vals, vin_vouts));
                    }
                }
            }
        }
        if !why.is_empty() && violations.len() < 40 {
            violations.push(json!({"kind": kind, "fn": "getTxDetails", "case": case, "why": why}));
        }
        // ---- the engine is still there: a read after every case, a write every 64 cases
        let probe = inst.call("eth_blockNumber", json!([]));
        if probe.ok().and_then(|v| v.as_str()).map(|s| s.to_string()) != Some(format!("{:#x}", height)) && violations.len() < 40 {
            violations.push(json!({"kind": "wedged", "fn": "probe", "case": case, "why": [format!("eth_blockNumber after the case: {:?}", probe)]}));
            break;
        }
        if ci % 64 == 63 {
            let w = inst.call("brc20_mine", json!([1, 43]));
            height += 1;
            if !w.is_ok() && violations.len() < 40 {
                violations.push(json!({"kind": "wedged", "fn": "probe", "case": case, "why": [format!("brc20_mine after the case: {}", w.err_text())]}));
                break;
            }
        }
        if samples.len() < 3 && case["loc"]["ok"] == json!(true) {
            samples.push(json!({"case": case, "answer": "as specified"}));
        }
    }
    let bad = !violations.is_empty();
    std::fs::write(out_path, serde_json::to_string_pretty(&json!({"cases": cases.len(), "requests": requests, "located": n_ok, "errors": n_err,
        "violations": violations, "samples": samples})).unwrap()).unwrap();
    inst.close();
    if bad { 1 } else { 0 }
}
