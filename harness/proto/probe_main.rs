use brc20_prog::types::*;
use brc20_prog::{start, Brc20ProgApiClient, Brc20ProgConfig};
use jsonrpsee::http_client::{HttpClient, HttpClientBuilder};
use jsonrpsee::server::ServerHandle;
use std::time::Duration;

async fn server(port: u16, dir: &std::path::Path) -> (ServerHandle, HttpClient) {
    let url = format!("127.0.0.1:{}", port);
    let cfg = Brc20ProgConfig { db_path: dir.to_str().unwrap().into(), brc20_prog_rpc_server_url: url.clone(), fail_on_bitcoin_rpc_error: false, evm_record_traces: true, bitcoin_rpc_network: "regtest".into(), ..Brc20ProgConfig::from_env() };
    let h = start(cfg).await.unwrap();
    let c = HttpClientBuilder::default().request_timeout(Duration::from_secs(5)).build(format!("http://{}", url)).unwrap();
    (h, c)
}
fn deploycode(runtime: &[u8]) -> String {
    let n = runtime.len() as u8;
    let mut v = vec![0x60, n, 0x60, 0x0b, 0x5f, 0x39, 0x60, n, 0x5f, 0xf3, 0x00];
    v.extend_from_slice(runtime);
    format!("0x{}", hex::encode(v))
}
const PK: &str = "7465737420706b736372697074";
fn h(n: u8) -> B256ED { let mut b=[0u8;32]; b[0]=0xaa; b[31]=n; b.into() }

#[tokio::main]
async fn main() {
    let which: Vec<String> = std::env::args().skip(1).collect();
    let want = |s: &str| which.is_empty() || which.iter().any(|w| w == s);
    if want("t1") {
        let d = tempfile::TempDir::new().unwrap();
        let (_s, c) = server(18701, d.path()).await;
        let _ = c.brc20_initialise(h(0), 1, 0).await;
        c.brc20_mine(2, 1).await.unwrap();
        let ctrl: AddressED = serde_json::from_str("\"0xc54dd4581af2dbf18e4d90840226756e9d2b3cdb\"").unwrap();
        let code_before = serde_json::to_string(&c.eth_get_code(ctrl.clone()).await.unwrap()).unwrap().len();
        c.brc20_commit_to_database().await.unwrap();
        let r = c.brc20_reorg(0).await;
        let code_after = serde_json::to_string(&c.eth_get_code(ctrl).await.unwrap()).unwrap().len();
        println!("T1(D12) reorg(0)={:?} controller code json len before={} after={} height={:?}", r, code_before, code_after, c.eth_block_number().await);
    }
    if want("t2") {
        let d = tempfile::TempDir::new().unwrap();
        let (_s, c) = server(18702, d.path()).await;
        let _ = c.brc20_initialise(h(0), 1, 0).await;
        // block 1: deploy store contract
        let rc = c.brc20_deploy(PK.into(), Some(RawBytes::new(deploycode(&[0x5f,0x35,0x5f,0x55,0x00]))), None, 1, h(1), 0, "i1".into(), 10000, h(0)).await.unwrap();
        let addr = rc.contract_address.unwrap();
        c.brc20_finalise_block(1, h(1), 1).await.unwrap();
        for b in 2..=30u8 {
            let data = format!("0x{:064x}", b);
            c.brc20_call(PK.into(), Some(addr.clone()), None, Some(RawBytes::new(data)), None, 1, h(b), 0, format!("c{}", b), 10000, h(0)).await.unwrap();
            c.brc20_finalise_block(1, h(b), 1).await.unwrap();
        }
        c.brc20_commit_to_database().await.unwrap();
        println!("T2 slot0 at 30 = {:?}", c.eth_get_storage_at(addr.clone(), U256ED::from(0u64)).await);
        println!("T2 reorg(20) = {:?}", c.brc20_reorg(20).await);
        println!("T2 slot0 at 20 = {:?} height={:?}", c.eth_get_storage_at(addr.clone(), U256ED::from(0u64)).await, c.eth_block_number().await);
        c.brc20_finalise_block(1, h(121), 0).await.unwrap();
        let r = c.brc20_reorg(11).await;
        println!("T2(D5) second reorg(11) after regrowth to 21 = {:?}", r);
        println!("T2 slot0 now = {:?} height={:?}", c.eth_get_storage_at(addr.clone(), U256ED::from(0u64)).await, c.eth_block_number().await);
        println!("T2 alive? mine(1) = {:?}", c.brc20_mine(1,1).await);
    }
    if want("t3") {
        let d = tempfile::TempDir::new().unwrap();
        let (_s, c) = server(18703, d.path()).await;
        let _ = c.brc20_initialise(h(0), 1, 0).await;
        // emitter: LOG1 topic = calldata word, no data
        let rc = c.brc20_deploy(PK.into(), Some(RawBytes::new(deploycode(&[0x5f,0x35,0x5f,0x5f,0xa1,0x00]))), None, 1, h(1), 0, "i1".into(), 10000, h(0)).await.unwrap();
        let addr = rc.contract_address.unwrap();
        c.brc20_finalise_block(1, h(1), 1).await.unwrap();
        for b in 2..=6u8 {
            for i in 0..4u64 {
                let data = format!("0x{:064x}", (b as u64)*16 + i);
                c.brc20_call(PK.into(), Some(addr.clone()), None, Some(RawBytes::new(data)), None, 1, h(b), i, format!("c{}_{}", b, i), 10000, h(0)).await.unwrap();
            }
            c.brc20_finalise_block(1, h(b), 4).await.unwrap();
        }
        let f = GetLogsFilter { from_block: Some("2".into()), to_block: Some("3".into()), address: None, topics: None };
        let logs = c.eth_get_logs(f.clone()).await.unwrap();
        let order: Vec<String> = logs.iter().map(|l| format!("{}.{}", serde_json::to_string(&l.block_number).unwrap(), serde_json::to_string(&l.transaction_index).unwrap())).collect();
        println!("T3(D1,D2) uncommitted logs in [2,3]: n={} (expect 8) order={:?}", logs.len(), order);
        println!("T3 txcount(2) uncommitted = {:?}", c.eth_get_block_transaction_count_by_number("2".into()).await);
        c.brc20_commit_to_database().await.unwrap();
        let logs = c.eth_get_logs(f).await.unwrap();
        let order: Vec<String> = logs.iter().map(|l| format!("{}.{}", serde_json::to_string(&l.block_number).unwrap(), serde_json::to_string(&l.transaction_index).unwrap())).collect();
        println!("T3 committed logs in [2,3]: n={} order={:?}", logs.len(), order);
        println!("T3(D3) raw receipts count block 2 = {:?}", c.debug_get_raw_receipts("2".into()).await.map(|x| x.map(|v| v.len())));
        println!("T3 reversed range = {:?}", c.eth_get_logs(GetLogsFilter{from_block:Some("3".into()), to_block:Some("2".into()), address:None, topics:None}).await.map(|l| l.len()));
    }
    if want("t4") {
        let d = tempfile::TempDir::new().unwrap();
        let (_s, c) = server(18704, d.path()).await;
        let r = c.brc20_mine(0, 1).await;
        println!("T4(D8) mine(0) on empty = {:?}", r.map_err(|e| e.to_string()));
        println!("T4 height after = {:?}", tokio::time::timeout(Duration::from_secs(3), c.eth_block_number()).await);
    }
    if want("t5") {
        let d = tempfile::TempDir::new().unwrap();
        let (_s, c) = server(18705, d.path()).await;
        let _ = c.brc20_initialise(h(0), 1, 0).await;
        let r = c.brc20_deploy(PK.into(), None, Some(Base64Bytes::new("".into())), 1, h(1), 0, "i1".into(), 10000, h(0)).await;
        println!("T5(D11) deploy with empty base64 = {:?}", r.map(|_| ()).map_err(|e| e.to_string()));
        println!("T5 alive? mine(1) = {:?}", c.brc20_mine(1,1).await.map_err(|e| e.to_string()));
    }
    if want("t6") {
        let d = tempfile::TempDir::new().unwrap();
        let (_s, c) = server(18706, d.path()).await;
        let r = c.brc20_initialise(h(0), 1, 5).await;
        println!("T6(D13) initialise(height=5) on empty = {:?}", r.map_err(|e| e.to_string()));
        println!("T6 then mine(1) = {:?} height={:?}", c.brc20_mine(1,1).await.map_err(|e| e.to_string()), c.eth_block_number().await);
    }
    if want("t7") {
        let d = tempfile::TempDir::new().unwrap();
        let (_s, c) = server(18707, d.path()).await;
        let _ = c.brc20_initialise(h(0), 1, 0).await;
        use alloy_sol_types::{sol, SolCall};
        sol! { function getLockedPkscript(bytes pkscript, uint256 lock_block_count) returns (bytes locked_pkscript); }
        let data = getLockedPkscriptCall::new((vec![0x51u8].into(), alloy::primitives::U256::from(6u8))).abi_encode();
        let to: AddressED = serde_json::from_str("\"0x00000000000000000000000000000000000000fb\"").unwrap();
        let r = c.eth_call(EthCall::new(None, Some(to.clone()), RawBytes::new(format!("0x{}", hex::encode(&data)))), None).await;
        println!("T7(D10) eth_call lockedpkscript 1-byte = {:?}", r.map_err(|e| e.to_string()));
        println!("T7 alive after eth_call? mine(1) = {:?} blockNumber={:?}", c.brc20_mine(1,1).await.map_err(|e| e.to_string()), c.eth_block_number().await.map_err(|e| e.to_string()));
    }
    if want("t9") {
        let d = tempfile::TempDir::new().unwrap();
        let (_s, c) = server(18709, d.path()).await;
        let _ = c.brc20_initialise(h(0), 1, 0).await;
        let to: AddressED = serde_json::from_str("\"0x00000000000000000000000000000000000000aa\"").unwrap();
        let r0 = c.brc20_call(PK.into(), Some(to.clone()), None, Some(RawBytes::new("0x01".into())), None, 1, h(1), 0, "a".into(), 0, h(0)).await.unwrap().unwrap();
        let r1 = c.brc20_call(PK.into(), Some(to.clone()), None, Some(RawBytes::new("0x01".into())), None, 1, h(1), 1, "b".into(), 0, h(0)).await.unwrap().unwrap();
        c.brc20_finalise_block(1, h(1), 2).await.unwrap();
        println!("T9(D14) same hash? {} idx0={} idx1={}", r0.transaction_hash == r1.transaction_hash, serde_json::to_string(&r0.transaction_index).unwrap(), serde_json::to_string(&r1.transaction_index).unwrap());
        let t = c.eth_get_transaction_by_block_number_and_index(1, Some(0)).await.unwrap().unwrap();
        println!("T9 tx at (1,0) reports index {}", serde_json::to_string(&t.transaction_index).unwrap());
        println!("T9 insc a -> idx {:?}", c.brc20_get_tx_receipt_by_inscription_id("a".into()).await.unwrap().map(|r| serde_json::to_string(&r.transaction_index).unwrap()));
    }

    if want("t8") {
        let d = tempfile::TempDir::new().unwrap();
        let (_s, c) = server(18708, d.path()).await;
        let _ = c.brc20_initialise(h(0), 1, 0).await;
        c.brc20_mine(1, 1).await.unwrap();
        let rc = c.brc20_deploy(PK.into(), Some(RawBytes::new(deploycode(&[0x5f,0x35,0x5f,0x55,0x00]))), None, 1, h(2), 0, "i1".into(), 10000, h(0)).await.unwrap();
        c.brc20_finalise_block(1, h(2), 1).await.unwrap();
        c.brc20_commit_to_database().await.unwrap();
        let x = rc.transaction_hash;
        println!("T8 before reorg: tx={} receipt={} trace={}", c.eth_get_transaction_by_hash(x.clone()).await.unwrap().is_some(), c.eth_get_transaction_receipt(x.clone()).await.unwrap().is_some(), c.debug_trace_transaction(x.clone()).await.unwrap().is_some());
        println!("T8 reorg(1) = {:?}", c.brc20_reorg(1).await);
        println!("T8(D4) after reorg: tx={} receipt={} trace={} insc={:?}", c.eth_get_transaction_by_hash(x.clone()).await.unwrap().is_some(), c.eth_get_transaction_receipt(x.clone()).await.unwrap().is_some(), c.debug_trace_transaction(x.clone()).await.unwrap().is_some(), c.brc20_get_tx_receipt_by_inscription_id("i1".into()).await.unwrap().is_some());
    }
    if want("t10") {
        use alloy_consensus::TxLegacy; use alloy_network::{EthereumWallet, TransactionBuilder}; use alloy_rpc_types_eth::TransactionRequest; use alloy_signer_local::PrivateKeySigner;
        let d = tempfile::TempDir::new().unwrap();
        let (_s, c) = server(18710, d.path()).await;
        let _ = c.brc20_initialise(h(0), 1, 0).await;
        let chain = u64::from_str_radix(c.eth_chain_id().await.unwrap().trim_start_matches("0x"), 16).unwrap();
        let wallet = EthereumWallet::new(PrivateKeySigner::from_bytes(&[7u8;32].into()).unwrap());
        let to: alloy::primitives::Address = "0x00000000000000000000000000000000000000aa".parse().unwrap();
        let mut raws = vec![];
        for n in 0..3u64 {
            let tb: TransactionRequest = TxLegacy::default().into();
            let tb = tb.with_chain_id(chain).with_nonce(n).with_gas_price(0).with_gas_limit(0).with_to(to).with_value(alloy::primitives::U256::ZERO).with_input(vec![n as u8]);
            let signed = tb.build(&wallet).await.unwrap();
            let mut rlp = Vec::new(); use alloy::eips::eip2718::Encodable2718; signed.encode_2718(&mut rlp);
            raws.push(format!("0x{}", hex::encode(rlp)));
        }
        // block 1: park nonce 1
        println!("T10 park n1 @1 -> {:?}", c.brc20_transact(Some(RawBytes::new(raws[1].clone())), None, 1, h(1), 0, "p1".into(), 1000, h(0)).await.map(|v| v.len()));
        c.brc20_finalise_block(1, h(1), 0).await.unwrap();
        c.brc20_mine(9, 1).await.unwrap(); // blocks 2..10
        println!("T10 height={:?} pool={}", c.eth_block_number().await, serde_json::to_string(&c.txpool_content().await.unwrap()).unwrap().len());
        // block 11: park nonce 2 (live), then nonce 0
        println!("T10 park n2 @11 -> {:?}", c.brc20_transact(Some(RawBytes::new(raws[2].clone())), None, 1, h(11), 0, "p2".into(), 1000, h(0)).await.map(|v| v.len()));
        let r = c.brc20_transact(Some(RawBytes::new(raws[0].clone())), None, 1, h(11), 0, "p0".into(), 1000, h(0)).await;
        println!("T10(D9) send n0 @11 -> {:?}", r.map(|v| v.len()).map_err(|e| e.to_string()));
        println!("T10 txcount(11)={:?} pool json len={}", c.eth_get_block_transaction_count_by_number("11".into()).await, serde_json::to_string(&c.txpool_content().await.unwrap()).unwrap().len());
        println!("T10 finalise(1 tx) = {:?}", c.brc20_finalise_block(1, h(11), 1).await.map_err(|e| e.to_string()));
    }

    if want("t12") {
        let d = tempfile::TempDir::new().unwrap();
        let (_s, c) = server(18712, d.path()).await;
        let _ = c.brc20_initialise(h(0), 1, 0).await;
        let to: AddressED = serde_json::from_str("\"0x0000000000000000000000000000000000000009\"").unwrap();
        let from: AddressED = serde_json::from_str("\"0x0a1d2b6b2b6e0f0f5a0a2b0d4c2f3d0e9c1b7a55\"").unwrap();
        let r0 = c.brc20_call(PK.into(), Some(to.clone()), None, Some(RawBytes::new("0x01".into())), None, 1, h(1), 0, "a".into(), 1000, h(0)).await.unwrap().unwrap();
        println!("T12 call blake2f bad input: status={} gas={} from={}", serde_json::to_string(&r0.status).unwrap(), serde_json::to_string(&r0.gas_used).unwrap(), serde_json::to_string(&r0.from).unwrap());
        println!("T12 nonce of sender after = {:?}", c.eth_get_transaction_count(r0.from.clone(), "latest".into()).await);
        let r1 = c.brc20_call(PK.into(), Some(to.clone()), None, Some(RawBytes::new("0x01".into())), None, 1, h(1), 1, "b".into(), 1000, h(0)).await.unwrap().unwrap();
        println!("T12 second identical: same hash? {}", r0.transaction_hash == r1.transaction_hash);
        let e = c.eth_call(EthCall::new(Some(from), Some(to), RawBytes::new("0x01".into())), None).await;
        println!("T12 eth_call same = {:?}", e.map_err(|e| e.to_string()));
    }
    if want("t13") {
        use alloy_sol_types::{sol, SolCall};
        sol! { function transfer(bytes ticker, address to, uint256 value) returns (bool); function approve(bytes ticker, address spender, uint256 value) returns (bool); function getTickerAddress(bytes ticker) returns (address); }
        mod tok { alloy_sol_types::sol! { function transfer(address to, uint256 value) returns (bool); function totalSupply() returns (uint256); } }
        let d = tempfile::TempDir::new().unwrap();
        let (_s, c) = server(18713, d.path()).await;
        let _ = c.brc20_initialise(h(0), 1, 0).await;
        let ctrl: AddressED = serde_json::from_str("\"0xc54dd4581af2dbf18e4d90840226756e9d2b3cdb\"").unwrap();
        let pk2 = "5120aabbccddeeff00112233445566778899aabbccddeeff00112233445566778899";
        let a2: alloy::primitives::Address = { let hsh = alloy::primitives::keccak256(hex::decode(pk2).unwrap()); alloy::primitives::Address::from_slice(&hsh[12..]) };
        let mut b = 1u8;
        let r = c.brc20_deposit(PK.into(), "OrDi".into(), U256ED::from(5u64), 1, h(b), 0, "d1".into()).await.unwrap();
        c.brc20_finalise_block(1, h(b), 1).await.unwrap(); b+=1;
        println!("T13 deposit status={} bal(ordi)={:?} bal(ORDI)={:?}", serde_json::to_string(&r.status).unwrap(), c.brc20_balance(PK.into(), "ordi".into()).await, c.brc20_balance(PK.into(), "ORDI".into()).await);
        let data = transferCall::new((b"ordi".to_vec().into(), a2, alloy::primitives::U256::from(2u8))).abi_encode();
        let r = c.brc20_call(PK.into(), Some(ctrl.clone()), None, Some(RawBytes::new(format!("0x{}", hex::encode(&data)))), None, 1, h(b), 0, "c1".into(), 10000, h(0)).await.unwrap().unwrap();
        c.brc20_finalise_block(1, h(b), 1).await.unwrap(); b+=1;
        println!("T13 controller.transfer(2) status={} bal1={:?} bal2={:?}", serde_json::to_string(&r.status).unwrap(), c.brc20_balance(PK.into(), "ordi".into()).await, c.brc20_balance(pk2.into(), "ordi".into()).await);
        let r = c.brc20_withdraw(PK.into(), "ordi".into(), U256ED::from(9u64), 1, h(b), 0, "w1".into()).await.unwrap();
        let r2 = c.brc20_withdraw(PK.into(), "nope".into(), U256ED::from(1u64), 1, h(b), 1, "w2".into()).await.unwrap();
        c.brc20_finalise_block(1, h(b), 2).await.unwrap(); b+=1;
        println!("T13 withdraw 9 (too much) status={} unminted status={} bal1={:?} bal(nope)={:?}", serde_json::to_string(&r.status).unwrap(), serde_json::to_string(&r2.status).unwrap(), c.brc20_balance(PK.into(), "ordi".into()).await, c.brc20_balance(PK.into(), "nope".into()).await);
        let ga = getTickerAddressCall::new((b"ordi".to_vec().into(),)).abi_encode();
        let out = c.eth_call(EthCall::new(None, Some(ctrl.clone()), RawBytes::new(format!("0x{}", hex::encode(&ga)))), None).await.unwrap();
        let tokaddr: AddressED = serde_json::from_str(&format!("\"0x{}\"", &out[26..])).unwrap();
        let td = tok::transferCall::new((a2, alloy::primitives::U256::from(1u8))).abi_encode();
        let r = c.brc20_call(PK.into(), Some(tokaddr.clone()), None, Some(RawBytes::new(format!("0x{}", hex::encode(&td)))), None, 1, h(b), 0, "c2".into(), 10000, h(0)).await.unwrap().unwrap();
        c.brc20_finalise_block(1, h(b), 1).await.unwrap();
        println!("T13 token {} .transfer(1) status={} bal1={:?} bal2={:?}", out, serde_json::to_string(&r.status).unwrap(), c.brc20_balance(PK.into(), "ordi".into()).await, c.brc20_balance(pk2.into(), "ordi".into()).await);
        let ts = tok::totalSupplyCall::new(()).abi_encode();
        println!("T13 totalSupply = {:?}", c.eth_call(EthCall::new(None, Some(tokaddr), RawBytes::new(format!("0x{}", hex::encode(&ts)))), None).await);
    }

    if want("t20") {
        let d = tempfile::TempDir::new().unwrap();
        let (_s, c) = server(18720, d.path()).await;
        let _ = c.brc20_initialise(h(0), 1, 0).await;
        let code = std::fs::read_to_string("/tmp/spike/evm/cell.hex").unwrap();
        let rc = c.brc20_deploy(PK.into(), Some(RawBytes::new(code.trim().into())), None, 1, h(1), 0, "i1".into(), 100000, h(0)).await.unwrap();
        println!("T20 deploy status={} addr={:?}", serde_json::to_string(&rc.status).unwrap(), rc.contract_address.as_ref().map(|a| serde_json::to_string(a).unwrap()));
        let addr = rc.contract_address.unwrap();
        c.brc20_finalise_block(1, h(1), 1).await.unwrap();
        let mut b = 2u8;
        for line in std::fs::read_to_string("/tmp/spike/evm/calls.txt").unwrap().lines() {
            let (hexs, note) = line.split_once('|').unwrap();
            let data = format!("0x{}", hexs.replace(' ', ""));
            let mut tid = [0u8;32]; tid[0]=0x77; tid[31]=b;
            let r = c.brc20_call(PK.into(), Some(addr.clone()), None, Some(RawBytes::new(data)), None, 1, h(b), 0, format!("c{}", b), 100000, tid.into()).await.unwrap().unwrap();
            c.brc20_finalise_block(1, h(b), 1).await.unwrap(); b += 1;
            let mut slots = vec![];
            for sl in [5u64,6,7,8,9,10,11,0xf0,0xf1,0xf2] { let v = c.eth_get_storage_at(addr.clone(), U256ED::from(sl)).await.unwrap(); let v = v.trim_start_matches("0x").trim_start_matches('0').to_string(); slots.push(format!("{:x}={}", sl, if v.is_empty() {"0".into()} else {v})); }
            println!("T20 [{}] status={} gas={} logs={} topics={:?} slots={}", note.trim(), serde_json::to_string(&r.status).unwrap(), serde_json::to_string(&r.gas_used).unwrap(), r.logs.len(), r.logs.iter().map(|l| l.topics.len()).collect::<Vec<_>>(), slots.join(" "));
        }
    }
}
