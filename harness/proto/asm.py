#!/usr/bin/env python3
"""Tiny EVM assembler with labels (prototype)."""
OPC = dict(STOP=0x00, ADD=0x01, MUL=0x02, SUB=0x03, DIV=0x04, LT=0x10, GT=0x11, EQ=0x14, ISZERO=0x15, AND=0x16, OR=0x17,
  SHL=0x1b, SHR=0x1c, ADDRESS=0x30, ORIGIN=0x32, CALLER=0x33, CALLDATALOAD=0x35, CALLDATASIZE=0x36, CALLDATACOPY=0x37,
  CODECOPY=0x39, GASPRICE=0x3a, RETURNDATASIZE=0x3d, RETURNDATACOPY=0x3e, BLOCKHASH=0x40, COINBASE=0x41, TIMESTAMP=0x42, NUMBER=0x43,
  PREVRANDAO=0x44, GASLIMIT=0x45, CHAINID=0x46, BASEFEE=0x48, POP=0x50, MLOAD=0x51, MSTORE=0x52, SLOAD=0x54, SSTORE=0x55,
  JUMP=0x56, JUMPI=0x57, GAS=0x5a, JUMPDEST=0x5b, PUSH0=0x5f, LOG0=0xa0, LOG1=0xa1, LOG2=0xa2, LOG3=0xa3, LOG4=0xa4,
  CREATE=0xf0, CALL=0xf1, RETURN=0xf3, STATICCALL=0xfa, REVERT=0xfd, SELFDESTRUCT=0xff)
for i in range(1,17): OPC['DUP%d'%i]=0x7f+i; OPC['SWAP%d'%i]=0x8f+i
def assemble(src):
    items=[]  # ('op',byte) | ('push',n,bytes) | ('pushl',label) | ('label',name)
    for tok in src.split():
        if tok.endswith(':'): items.append(('label',tok[:-1])); items.append(('op',0x5b))
        elif tok.startswith('@'): items.append(('pushl',tok[1:]))
        elif tok.startswith('#'):
            v=int(tok[1:],0); n=max(1,(v.bit_length()+7)//8)
            items.append(('op',0x5f) if v==0 else ('push',n,v.to_bytes(n,'big')))
        else: items.append(('op',OPC[tok]))
    # two-pass, PUSH2 for labels
    pos=0; labels={}
    for it in items:
        if it[0]=='label': labels[it[1]]=pos
        elif it[0]=='op': pos+=1
        elif it[0]=='push': pos+=1+it[1]
        elif it[0]=='pushl': pos+=3
    out=bytearray()
    for it in items:
        if it[0]=='op': out.append(it[1])
        elif it[0]=='push': out.append(0x5f+it[1]); out+=it[2]
        elif it[0]=='pushl': out.append(0x61); out+=labels[it[1]].to_bytes(2,'big')
    return bytes(out)
def initcode(runtime):
    n=len(runtime)
    hdr=bytes([0x61])+n.to_bytes(2,'big')+bytes([0x61])+(13).to_bytes(2,'big')+bytes([0x5f,0x39,0x61])+n.to_bytes(2,'big')+bytes([0x5f,0xf3])
    assert len(hdr)==13
    return hdr+runtime
# byte at (i+k): stack has i at depth d (1=top)
def B(d,k): return f"DUP{d} #{k} ADD CALLDATALOAD #248 SHR"
CELL = f"""
  #0
loop:
  DUP1 CALLDATASIZE GT @cont JUMPI STOP
cont:
  DUP1 CALLDATALOAD #248 SHR
  DUP1 #1 EQ @op_sstore JUMPI
  DUP1 #3 EQ @op_revert JUMPI
  DUP1 #4 EQ @op_create JUMPI
  DUP1 #5 EQ @op_sub JUMPI
  DUP1 #6 EQ @op_burn JUMPI
  DUP1 #7 EQ @op_ret JUMPI
  DUP1 #9 EQ @op_static JUMPI
  DUP1 #0x10 EQ @op_log0 JUMPI
  DUP1 #0x11 EQ @op_log1 JUMPI
  DUP1 #0x12 EQ @op_log2 JUMPI
  DUP1 #0x13 EQ @op_log3 JUMPI
  DUP1 #0x14 EQ @op_log4 JUMPI
  STOP
op_sstore:
  POP {B(1,2)} {B(2,1)} SSTORE #3 ADD @loop JUMP
op_revert:
  #0 #0 REVERT
op_create:
  POP #0x5f5ff3 #0 MSTORE #3 #29 #0 CREATE POP #1 ADD @loop JUMP
op_sub:
  POP {B(1,1)}
  DUP1 DUP3 #2 ADD #0 CALLDATACOPY
  #0 #0 DUP3 #0 #0 ADDRESS GAS CALL POP
  ADD #2 ADD @loop JUMP
op_burn:
  POP {B(1,1)} #8 SHL
burnloop:
  DUP1 ISZERO @burndone JUMPI #1 SWAP1 SUB @burnloop JUMP
burndone:
  POP #2 ADD @loop JUMP
op_ret:
  POP {B(1,1)} SLOAD #0 MSTORE #32 #0 RETURN
op_static:
  POP {B(1,2)}
  DUP1 DUP3 #3 ADD #0 CALLDATACOPY
  #32 #0x100 DUP3 #0 {B(6,1)} GAS STATICCALL
  #1 ADD #0xf0 SSTORE
  RETURNDATASIZE #1 ADD #0xf1 SSTORE
  #0x100 MLOAD #0xf2 SSTORE
  ADD #3 ADD @loop JUMP
op_log0:
  POP #0 #0 LOG0 #1 ADD @loop JUMP
op_log1:
  POP {B(1,1)} #0 #0 LOG1 #2 ADD @loop JUMP
op_log2:
  POP {B(1,2)} {B(2,1)} #0 #0 LOG2 #3 ADD @loop JUMP
op_log3:
  POP {B(1,3)} {B(2,2)} {B(3,1)} #0 #0 LOG3 #4 ADD @loop JUMP
op_log4:
  POP {B(1,4)} {B(2,3)} {B(3,2)} {B(4,1)} #0 #0 LOG4 #5 ADD @loop JUMP
"""
if __name__=='__main__':
    rt=assemble(CELL)
    print(len(rt),"bytes runtime")
    open('cell.hex','w').write('0x'+initcode(rt).hex())
