----------------------------- MODULE Brc20Ref -----------------------------
(***************************************************************************)
(* The API-level reference machine of brc20-programmable-module: what a    *)
(* client of the JSON-RPC surface can observe after any sequence of calls. *)
(* It knows nothing of histories, caches or RocksDB: Reorg is truncation,  *)
(* Commit moves a pointer, Clear/Restart fall back to that pointer.        *)
(*                                                                         *)
(* One action per indexer method, each with accept and reject disjuncts.   *)
(* The same actions are used (a) by MC_Ref*.cfg for exhaustive checking in *)
(* small scopes, (b) by Sim_Ref*.cfg to generate schedules that the        *)
(* harness executes on the real engine, (c) by TraceRef.tla to validate    *)
(* recorded executions of the real engine.                                 *)
(***************************************************************************)
EXTENDS Naturals, Integers, Sequences, FiniteSets, TLC, SequencesExt, FiniteSetsExt

CONSTANTS W,         \* MAX_REORG_HISTORY_SIZE      (10)
          NonceWin,  \* MAX_FUTURE_TRANSACTION_NONCES (10)
          AgeWin,    \* MAX_FUTURE_TRANSACTION_BLOCKS (10)
          MAXV,      \* image of 2^256-1 under the amount embedding
          PragueFrom,\* first height at which the Prague rules (current-txid helper) are in force on this network
          Base       \* the database starts with Base committed, empty, server-generated blocks 0..Base-1 (brc20_mine(Base);
                     \* commit) that the chain variable does not spell out: chain[1] is height Base.  0 everywhere except in the
                     \* configurations that cross a network's activation height (275 000 blocks cannot be a TLC sequence)

VARIABLES
  chain,    \* Seq of finalised blocks; chain[h-Base+1] is height h: [hash, ts, txs]
  cur,      \* block under construction: [n, hash, ts, txs]
  world,    \* [nonce, code, cells, bal, tok] - sparse functions, see Get/Put
  pool,     \* <<signer, nonce>> -> [tx, at, txid]  (the pending pool)
  snaps,    \* ghost: snaps[h+1] = [world, pool] at the end of block h
  maxEver,  \* highest height ever finalised on this database (-1: none)
  dur       \* [chain, world, pool, snaps] as of the last commit / accepted reorg

vars == <<chain, cur, world, pool, snaps, maxEver, dur>>

NULL == "NULL"

Get(f, k, d) == IF k \in DOMAIN f THEN f[k] ELSE d
Put(f, k, v) == [x \in (DOMAIN f) \cup {k} |-> IF x = k THEN v ELSE f[x]]
Del(f, k)    == [x \in (DOMAIN f) \ {k} |-> f[x]]

Height  == Base + Len(chain) - 1   \* -1 on an empty database (the API says 0)
NextH   == Base + Len(chain)
Gen(h)  == "g" \o ToString(h)      \* the hash generated for a zero hash at height h
Resolve(hash, h) == IF hash = "zero" THEN Gen(h) ELSE hash
BaseTs  == 5                       \* the timestamp the harness mines the Base blocks with
(* the block at height h of a chain sequence ch (heights below Base are the implicit mined blocks) *)
BlkOf(ch, h) == IF h >= Base THEN ch[h - Base + 1] ELSE [hash |-> Gen(h), ts |-> BaseTs, txs |-> <<>>]
Blk(h)  == BlkOf(chain, h)
(* explicit hash tokens never spell a generated hash, and Gen(h) for h >= Base differs from every Gen below Base *)
Hashes  == {chain[i].hash : i \in 1..Len(chain)}

NoCur == [n |-> 0, hash |-> NULL, ts |-> 0, txs |-> <<>>]

EmptyWorld == [nonce |-> <<>>, code |-> <<>>, cells |-> <<>>, bal |-> <<>>, tok |-> <<>>, pcells |-> <<>>]

Nonce(w, a)  == Get(w.nonce, a, 0)
Code(w, a)   == Get(w.code, a, "none")
Cell(w, a, s) == Get(w.cells, <<a, s>>, 0)
Bal(w, t, a) == Get(w.bal, <<t, a>>, 0)
Tok(w, t)    == Get(w.tok, t, NULL)
Supply(w, t) == LET ks == {k \in DOMAIN w.bal : k[1] = t}
                IN  FoldSet(LAMBDA k, acc : acc + w.bal[k], 0, ks)

CreateAddr(a, n) == "c_" \o a \o "_" \o ToString(n)

-----------------------------------------------------------------------------
(* Cell programs: an op list interpreted by the Cell contract (asm.rs).     *)
(* The state threaded through is [cells, nonce, code, logs, bn]; bn is the   *)
(* block number the code observes (the height being built).                 *)

(* the part of the execution environment that the protocol fixes, as the Cell op `env k s` stores it (value mod 999983): *)
(* 1 GASLIMIT = 2^64-1, 2 COINBASE = 0, 3 BASEFEE = 0, 4 GASPRICE = 0, 5 BLOBBASEFEE = 1 (the EVM's floor), 6 SELFBALANCE = 0,  *)
(* 7 CALLVALUE = 0, 8 CHAINID (0x425243323073 off mainnet).  The same in a transaction and in a read-only simulation.    *)
EnvVal(k) == CASE k = 1 -> 4345 [] k = 5 -> 1 [] k = 8 -> 793620 [] OTHER -> 0

RECURSIVE ExecOps(_, _, _)
ExecOps(self, ops, st) ==
  IF ops = <<>> THEN [ok |-> TRUE, st |-> st]
  ELSE
    LET o == Head(ops)
        rest == Tail(ops)
    IN CASE o.op = "sstore" ->
              ExecOps(self, rest, [st EXCEPT !.cells = Put(@, <<self, o.s>>, o.v)])
         [] o.op = "log" ->
              ExecOps(self, rest, [st EXCEPT !.logs = Append(@, [a |-> self, t |-> [i \in DOMAIN o.t |-> ToString(o.t[i])]])])
         [] o.op = "revert" -> [ok |-> FALSE, st |-> st]
         [] o.op = "invalid" -> [ok |-> FALSE, st |-> st]
         [] o.op = "create" ->
              LET n == Get(st.nonce, self, 1)
                  child == CreateAddr(self, n)
              IN  ExecOps(self, rest,
                          [st EXCEPT !.nonce = Put(Put(@, self, n + 1), child, 1),
                                     !.code = Put(@, child, "empty")])
         [] o.op = "sub" ->
              LET r == ExecOps(self, o.ops, st)
              IN  ExecOps(self, rest, IF r.ok THEN r.st ELSE st)
         [] o.op = "number" ->
              ExecOps(self, rest, [st EXCEPT !.cells = Put(@, <<self, o.s>>, st.bn)])
         [] o.op = "bh" ->
              \* 1 if BLOCKHASH(NUMBER - back) is a real hash, 2 if it is zero (the block does not exist or is out of reach)
              LET n == st.bn - o.back
                  known == o.back >= 1 /\ o.back <= 256 /\ n >= 0 /\ n <= Height
              IN  ExecOps(self, rest, [st EXCEPT !.cells = Put(@, <<self, o.s>>, IF known THEN 1 ELSE 2)])
         [] o.op = "callext" ->
              \* CALL another account with an op list as call data, result ignored: a Cell interprets it in ITS context
              \* (its storage, its logs, its nonce); any other account accepts the call and does nothing
              IF Get(st.code, o.to, "none") = "cell"
              THEN LET r == ExecOps(o.to, o.ops, st) IN ExecOps(self, rest, IF r.ok THEN r.st ELSE st)
              ELSE ExecOps(self, rest, st)
         [] o.op = "env" ->
              ExecOps(self, rest, [st EXCEPT !.cells = Put(@, <<self, o.s>>, EnvVal(o.k))])
         [] o.op = "burn" -> ExecOps(self, rest, st)
         [] o.op = "ret" -> [ok |-> TRUE, st |-> st]
         [] o.op = "selfdestruct" -> [ok |-> TRUE, st |-> st]
         [] o.op = "stop" -> [ok |-> TRUE, st |-> st]
         [] OTHER -> [ok |-> TRUE, st |-> st]

(* The value returned by a successful run (for eth_call): the slot of the   *)
(* first top-level "ret", else -1 (nothing returned).                       *)
RECURSIVE RetOf(_, _, _)
RetOf(self, ops, st) ==
  IF ops = <<>> THEN -1
  ELSE LET o == Head(ops) IN
       IF o.op = "ret" THEN Get(st.cells, <<self, o.s>>, 0)
       ELSE IF o.op \in {"selfdestruct", "stop"} THEN -1
       ELSE LET r == ExecOps(self, <<o>>, st) IN RetOf(self, Tail(ops), IF r.ok THEN r.st ELSE st)

-----------------------------------------------------------------------------
(* Execution of one transaction on a world.                                  *)
(*   tx : [kind, from, to, ckind, ops, lc, gas]                              *)
(*   kind  "create" | "call"                                                 *)
(*   ckind (creates) "cell" | "probe" | "bad" | "ctrl" | "big" (24577 bytes of STOP: over EIP-170, which the engine lifts) *)
(*   gas   "ample" | "max" (saturated allowance, 2^64-1) | "tiny" (below the intrinsic cost: invalid transaction)  *)
(*   lc    a ledger call record or NULL (see Ledger section)                 *)
(* Result: [valid, status, logs, created, world]                             *)

BumpNonce(w, a) == [w EXCEPT !.nonce = Put(@, a, Nonce(w, a) + 1)]

ExecCreate(w, from, ckind) ==
  LET n == Nonce(w, from)
      addr == CreateAddr(from, n)
      w1 == BumpNonce(w, from)
  IN  IF ckind = "bad"
      THEN [valid |-> TRUE, status |-> 0, logs |-> <<>>, created |-> NULL, world |-> w1]
      ELSE [valid |-> TRUE, status |-> 1, logs |-> <<>>, created |-> addr,
            world |-> [w1 EXCEPT !.nonce = Put(@, addr, 1), !.code = Put(@, addr, ckind)]]

(* the block number the code of tx observes: the height being built, or - for a simulation with an explicit block - that *)
BnOf(tx) == IF "bn" \in DOMAIN tx THEN tx.bn ELSE NextH

ExecCellCall(w, from, to, ops, bn) ==
  LET w1 == BumpNonce(w, from)
      r == ExecOps(to, ops, [cells |-> w1.cells, nonce |-> w1.nonce, code |-> w1.code, logs |-> <<>>, bn |-> bn])
  IN  IF r.ok
      THEN [valid |-> TRUE, status |-> 1, logs |-> r.st.logs, created |-> NULL,
            world |-> [w1 EXCEPT !.cells = r.st.cells, !.nonce = r.st.nonce, !.code = r.st.code]]
      ELSE [valid |-> TRUE, status |-> 0, logs |-> <<>>, created |-> NULL, world |-> w1]

Invalid(w) == [valid |-> FALSE, status |-> 0, logs |-> <<>>, created |-> NULL, world |-> w]

-----------------------------------------------------------------------------
(* Ledger: BRC20_Controller and its per-ticker tokens, at the level the      *)
(* property speaks about (C07).                                              *)
(*   lc = [fn, tk, a, b, v]                                                  *)
(*   indexer ops (strict):  "mint" (to a, amount v), "burn" (from a)         *)
(*   user ops (status-driven): "transfer" (sender -> a), "transferFrom"      *)
(*   (a -> b), "approve", and adversarial "mint"/"burn" by a non-owner       *)

MintOk(w, t, a, v) == a # "zero" /\ Supply(w, t) + v <= MAXV
BurnOk(w, t, a, v) == Tok(w, t) # NULL /\ a # "zero" /\ Bal(w, t, a) >= v

DoMint(w, t, a, v) ==
  LET w1 == IF Tok(w, t) # NULL THEN w
            ELSE LET n == Nonce(w, "ctrl")
                     ta == CreateAddr("ctrl", n)
                 IN  [w EXCEPT !.tok = Put(@, t, ta), !.nonce = Put(Put(@, "ctrl", n + 1), ta, 1),
                               !.code = Put(@, ta, "tok")]
  IN  [w1 EXCEPT !.bal = Put(@, <<t, a>>, Bal(w1, t, a) + v)]

DoBurn(w, t, a, v) == [w EXCEPT !.bal = Put(@, <<t, a>>, Bal(w, t, a) - v)]

DoMove(w, t, a, b, v) ==
  IF a = b THEN w
  ELSE [w EXCEPT !.bal = Put(Put(@, <<t, a>>, Bal(w, t, a) - v), <<t, b>>, Bal(w, t, b) + v)]

(* strict: the indexer's deposit / withdraw *)
ExecIndexer(w, lc) ==
  LET w1 == BumpNonce(w, "idx")
      ok == IF lc.fn = "mint" THEN MintOk(w1, lc.tk, lc.a, lc.v) ELSE BurnOk(w1, lc.tk, lc.a, lc.v)
  IN  [valid |-> TRUE, status |-> IF ok THEN 1 ELSE 0, created |-> NULL,
       world |-> IF ~ok THEN w1
                 ELSE IF lc.fn = "mint" THEN DoMint(w1, lc.tk, lc.a, lc.v) ELSE DoBurn(w1, lc.tk, lc.a, lc.v)]

(* status-driven: what a user-submitted ledger call may do, given its status *)
UserLedgerAllowed(w, from, lc, status) ==
  CASE lc.fn \in {"mint", "burn"} -> status = 0                  \* only the indexer mints or burns
    [] lc.fn = "approve" -> TRUE
    [] lc.fn = "transfer" ->
         IF status = 1 THEN Tok(w, lc.tk) # NULL /\ Bal(w, lc.tk, from) >= lc.v /\ lc.a # "zero" ELSE TRUE
    [] lc.fn = "transferFrom" ->
         IF status = 1 THEN Tok(w, lc.tk) # NULL /\ Bal(w, lc.tk, lc.a) >= lc.v /\ lc.b # "zero" ELSE TRUE
    [] OTHER -> TRUE

UserLedgerWorld(w, from, lc, status) ==
  LET w1 == BumpNonce(w, from)
  IN  IF status = 0 THEN w1
      ELSE CASE lc.fn = "transfer" -> DoMove(w1, lc.tk, from, lc.a, lc.v)
             [] lc.fn = "transferFrom" -> DoMove(w1, lc.tk, lc.a, lc.b, lc.v)
             [] OTHER -> w1

(* an over-transfer must fail *)
UserLedgerMustFail(w, from, lc) ==
  \/ lc.fn \in {"mint", "burn"}
  \/ lc.fn = "transfer" /\ (Tok(w, lc.tk) = NULL \/ Bal(w, lc.tk, from) < lc.v)
  \/ lc.fn = "transferFrom" /\ (Tok(w, lc.tk) = NULL \/ Bal(w, lc.tk, lc.a) < lc.v)

-----------------------------------------------------------------------------
(* The outcome of a transaction.  Three classes:                            *)
(*  "full"   - status, logs, created address and effect are a function of    *)
(*             the world (creations, Cell programs, calls to code-less       *)
(*             accounts, invalid transactions)                               *)
(*  "status" - status and effect are a function, logs are as observed        *)
(*             (the indexer's deposit/withdraw)                              *)
(*  "seen"   - status and logs are as observed, the effect is constrained    *)
(*             (user calls into the controller/tokens, Probe)                *)
(* `seen` = [status, logs, created] is the observed receipt (trace           *)
(* validation) or a nondeterministic choice (model checking).                *)

Class(w, tx) ==
  IF tx.gas = "tiny" \/ tx.kind = "create" THEN "full"
  ELSE IF tx.lc.fn # "none" /\ Code(w, tx.to) \in {"ctrl", "tok"} THEN (IF tx.from = "idx" THEN "status" ELSE "seen")
  ELSE IF Code(w, tx.to) \in {"cell", "none", "empty"} THEN "full"
  ELSE "seen"

Outcome(w, tx, seen) ==
  CASE Class(w, tx) = "full" ->
         IF tx.gas = "tiny" THEN Invalid(w)
         ELSE IF tx.kind = "create" THEN ExecCreate(w, tx.from, tx.ckind)
         ELSE IF Code(w, tx.to) = "cell" THEN ExecCellCall(w, tx.from, tx.to, tx.ops, BnOf(tx))
         ELSE [valid |-> TRUE, status |-> 1, logs |-> <<>>, created |-> NULL, world |-> BumpNonce(w, tx.from)]
    [] Class(w, tx) = "status" ->
         LET r == ExecIndexer(w, tx.lc)
         IN  [valid |-> TRUE, status |-> r.status, logs |-> seen.logs, created |-> NULL, world |-> r.world]
    [] OTHER ->
         [valid |-> TRUE, status |-> seen.status, logs |-> seen.logs, created |-> NULL,
          world |-> IF tx.lc.fn # "none" THEN UserLedgerWorld(w, tx.from, tx.lc, seen.status)
                    ELSE BumpNonce(w, tx.from)]

(* Return data of a transaction / eth_call, in the abstract form the harness logs:          *)
(* "empty", "w:<n>" (one word), "code:<kind>" (the runtime code a creation returns).          *)
CallOut(w, tx) ==
  IF tx.gas = "tiny" THEN "empty"
  ELSE IF tx.kind = "create" THEN (IF tx.ckind = "bad" THEN "empty" ELSE "code:" \o tx.ckind)
  ELSE IF Code(w, tx.to) = "cell"
  THEN LET w1 == BumpNonce(w, tx.from)
           st == [cells |-> w1.cells, nonce |-> w1.nonce, code |-> w1.code, logs |-> <<>>, bn |-> BnOf(tx)]
           r == ExecOps(tx.to, tx.ops, st)
           v == RetOf(tx.to, tx.ops, st)
       IN  IF r.ok /\ v # -1 THEN "w:" \o ToString(v) ELSE "empty"
  ELSE "empty"

(* eth_call / eth_callMany: evaluation on a scratch copy of the world; call i sees calls < i  *)
RECURSIVE EvalMany(_, _)
EvalMany(w, txs) ==
  IF txs = <<>> THEN <<>>
  ELSE LET tx == Head(txs)
           o == Outcome(w, tx, [status |-> 1, logs |-> <<>>, created |-> NULL])
       IN  IF Code(w, tx.from) \notin {"none", "empty"}
           THEN <<[ok |-> FALSE, out |-> "empty"]>> \o EvalMany(w, Tail(txs))       \* rejected before execution: a sender with code
           ELSE <<[ok |-> o.status = 1, out |-> CallOut(w, tx)]>> \o EvalMany(o.world, Tail(txs))

(* is the observed receipt one the machine allows? *)
SeenOk(w, tx, seen) ==
  LET out == Outcome(w, tx, seen)
  IN  /\ seen.status = out.status /\ seen.logs = out.logs /\ seen.created = out.created
      /\ (Class(w, tx) = "seen" /\ tx.lc.fn # "none") =>
            /\ UserLedgerAllowed(w, tx.from, tx.lc, seen.status)
            /\ (UserLedgerMustFail(w, tx.from, tx.lc) => seen.status = 0)

-----------------------------------------------------------------------------
(* Block protocol                                                            *)

(* validate_next_tx + require_block_does_not_exist *)
ProtoOk(idx, hash, ts) ==
  /\ idx = cur.n
  /\ cur.n > 0 => (ts = cur.ts /\ Resolve(hash, NextH) = cur.hash)
  /\ Resolve(hash, NextH) \notin Hashes

(* the record of a transaction as the chain keeps it *)
TxRec(id, tx, insc, nonce, out) ==
  [id |-> id, from |-> tx.from, to |-> IF tx.kind = "create" THEN NULL ELSE tx.to, nonce |-> nonce,
   insc |-> insc, status |-> out.status, logs |-> out.logs, created |-> out.created,
   valid |-> out.valid, src |-> tx]

ChainIds == UNION {{chain[i].txs[j].id : j \in 1..Len(chain[i].txs)} : i \in 1..Len(chain)}
CurIds   == {cur.txs[j].id : j \in 1..Len(cur.txs)}

(* C19: what the Probe contract records of its execution context (slots 1..17, as the harness abstracts them); slot 18 counts the
   executions of that Probe that are part of the state: every version of it is distinct, so a rollback that restores a wrong
   version, or a transaction executed twice or not at all, shows in it (C01, C04, C08) *)
BlockHashBack(k) == IF k <= NextH /\ k <= 256 /\ k >= 1 THEN "h:" \o Blk(NextH - k).hash ELSE "h:zero"
PDefault(s) == IF s \in {3, 10, 11, 12, 13, 14} THEN "h:zero" ELSE IF s \in {7, 8, 9} THEN "a:zero" ELSE IF s = 17 THEN "x:zero" ELSE "n:0"
PCell(w, a, s) == Get(w.pcells, <<a, s>>, PDefault(s))
ProbeRuns(v) == CHOOSE k \in 0..400 : v = "n:" \o ToString(k)
ProbeWrite(w, tx, hash, ts) ==
  LET a == tx.to
      prague == NextH >= PragueFrom
      vals == [s \in 1..18 |->
                 CASE s = 1 -> "n:" \o ToString(NextH)
                   [] s = 2 -> "n:" \o ToString(ts)
                   [] s = 3 -> "h:" \o hash
                   [] s = 4 -> "n:own"
                   [] s \in {5, 6} -> "n:0"
                   [] s = 7 -> "a:zero"
                   [] s \in {8, 9} -> "a:" \o tx.from
                   [] s = 10 -> BlockHashBack(1)
                   [] s = 11 -> BlockHashBack(2)
                   [] s = 12 -> BlockHashBack(3)
                   [] s = 13 -> BlockHashBack(256)
                   [] s = 14 -> BlockHashBack(257)
                   [] s = 15 -> "n:2"
                   [] s = 16 -> IF prague THEN "n:33" ELSE "n:1"
                   [] s = 17 -> IF prague THEN "x:" \o tx.txid ELSE "x:zero"
                   [] s = 18 -> "n:" \o ToString(ProbeRuns(PCell(w, a, 18)) + 1)]
  IN  [w EXCEPT !.pcells = [k \in (DOMAIN @) \cup {<<a, s>> : s \in 1..18} |->
                               IF k[1] = a /\ k[2] \in 1..18 THEN vals[k[2]] ELSE @[k]]]

(* append one executed transaction to the block under construction *)
Append1(c, w, id, tx, insc, hash, ts, out) ==
  [c |-> [n |-> c.n + 1, hash |-> Resolve(hash, NextH), ts |-> ts,
          txs |-> Append(c.txs, TxRec(id, tx, insc, Nonce(w, tx.from), out))],
   w |-> IF tx.kind = "call" /\ tx.gas \in {"ample", "max"} /\ Code(w, tx.to) = "probe" /\ out.status = 1
         THEN ProbeWrite(out.world, tx, Resolve(hash, NextH), ts)
         ELSE out.world]

(* brc20_deploy / brc20_call / brc20_deposit / brc20_withdraw, accepted *)
AddTx(id, tx, insc, idx, hash, ts, seen) ==
  /\ ProtoOk(idx, hash, ts)
  /\ id \notin (ChainIds \cup CurIds)                  \* transaction identity is unique (C06)
  /\ SeenOk(world, tx, seen)
  /\ LET r == Append1(cur, world, id, tx, insc, hash, ts, Outcome(world, tx, seen))
     IN  cur' = r.c /\ world' = r.w
  /\ UNCHANGED <<chain, pool, snaps, maxEver, dur>>

(* ... rejected: nothing changes (C05) *)
Reject == UNCHANGED vars

-----------------------------------------------------------------------------
(* Signed transactions and the pending pool (C08)                            *)

Live(e, h) == e.at + AgeWin > h

(* the maximal run of live waiting nonces from `n` on *)
RECURSIVE DrainSeq(_, _, _)
DrainSeq(p, signer, n) ==
  IF <<signer, n>> \in DOMAIN p /\ Live(p[<<signer, n>>], NextH)
  THEN <<n>> \o DrainSeq(p, signer, n + 1)
  ELSE <<>>

(* execute the waiting nonces `ns` in order; seens[k] is the receipt of the k-th of them *)
RECURSIVE DrainApply(_, _, _, _, _, _, _, _)
DrainApply(c, w, p, signer, ns, hash, ts, seens) ==
  IF ns = <<>> THEN [c |-> c, w |-> w, p |-> p, ok |-> TRUE]
  ELSE LET e == p[<<signer, Head(ns)>>]
           r == Append1(c, w, e.id, e.tx, e.insc, hash, ts, Outcome(w, e.tx, Head(seens)))
           rest == DrainApply(r.c, r.w, Del(p, <<signer, Head(ns)>>), signer, Tail(ns), hash, ts, Tail(seens))
       IN  [rest EXCEPT !.ok = @ /\ SeenOk(w, e.tx, Head(seens))]

(* After the drained run an expired entry (if one follows directly) is       *)
(* dropped; entries behind it may stay or be dropped but never execute       *)
(* (DESIGN section 7).                                                       *)
AllowedPools(p, signer, nx) ==
  IF <<signer, nx>> \notin DOMAIN p THEN {p}
  ELSE LET behind == {k \in DOMAIN p : k[1] = signer /\ k[2] > nx}
       IN  {[k \in (DOMAIN p) \ ({<<signer, nx>>} \cup S) |-> p[k]] : S \in SUBSET behind}

(* brc20_transact carrying the account's next nonce: executed, then drained. *)
(* seens = receipts of all appended transactions, head = the submitted one.  *)
TransactExec(id, tx, insc, idx, hash, ts, seens, pnew) ==
  /\ ProtoOk(idx, hash, ts)
  /\ id \notin (ChainIds \cup CurIds)
  /\ Len(seens) >= 1
  /\ SeenOk(world, tx, Head(seens))
  /\ LET r0 == Append1(cur, world, id, tx, insc, hash, ts, Outcome(world, tx, Head(seens)))
         n0 == Nonce(world, tx.from)
         ns == DrainSeq(pool, tx.from, n0 + 1)
     IN  /\ Len(seens) = 1 + Len(ns)              \* one receipt per appended transaction
         /\ LET r == DrainApply(r0.c, r0.w, pool, tx.from, ns, hash, ts, Tail(seens))
            IN  /\ r.ok
                /\ cur' = r.c /\ world' = r.w
                /\ pnew \in AllowedPools(r.p, tx.from, n0 + 1 + Len(ns))
                /\ pool' = pnew
  /\ UNCHANGED <<chain, snaps, maxEver, dur>>

(* nonce ahead of the account by less than the window: parked (replaces) *)
TransactPark(id, tx, insc, nonce, txid) ==
  /\ Nonce(world, tx.from) < nonce /\ nonce < Nonce(world, tx.from) + NonceWin
  /\ pool' = Put(pool, <<tx.from, nonce>>, [id |-> id, tx |-> tx, insc |-> insc, at |-> NextH, txid |-> txid])
  /\ UNCHANGED <<chain, cur, world, snaps, maxEver, dur>>

(* stale, far-future, foreign chain: ignored without effect *)
TransactIgnorable(tx, nonce, chainOk) ==
  \/ ~chainOk
  \/ nonce < Nonce(world, tx.from)
  \/ nonce >= Nonce(world, tx.from) + NonceWin
TransactIgnore == UNCHANGED vars

-----------------------------------------------------------------------------
(* Finalise, mine, initialise                                                *)

Sweep(p, h) == [k \in {k \in DOMAIN p : p[k].at + AgeWin > h} |-> p[k]]

FinaliseOk(ts, hash, count) ==
  /\ ProtoOk(count, hash, ts)
  /\ LET h == NextH
         p1 == Sweep(pool, h)
     IN  /\ chain' = Append(chain, [hash |-> Resolve(hash, h), ts |-> ts, txs |-> cur.txs])
         /\ pool' = p1
         /\ snaps' = Append(snaps, [world |-> world, pool |-> p1])
         /\ maxEver' = IF h > maxEver THEN h ELSE maxEver
  /\ cur' = NoCur
  /\ UNCHANGED <<world, dur>>

RECURSIVE MineN(_, _, _, _, _, _)
MineN(ch, sn, p, mx, k, ts) ==
  IF k = 0 THEN [ch |-> ch, sn |-> sn, p |-> p, mx |-> mx]
  ELSE LET h == Base + Len(ch)
           p1 == Sweep(p, h)
       IN  MineN(Append(ch, [hash |-> Gen(h), ts |-> ts, txs |-> <<>>]),
                 Append(sn, [world |-> world, pool |-> p1]), p1,
                 IF h > mx THEN h ELSE mx, k - 1, ts)

MineOk(k, ts) ==
  /\ cur.n = 0
  /\ \A j \in 0..(k - 1) : Gen(NextH + j) \notin Hashes
  /\ LET r == MineN(chain, snaps, pool, maxEver, k, ts)
     IN  chain' = r.ch /\ snaps' = r.sn /\ pool' = r.p /\ maxEver' = r.mx
  /\ UNCHANGED <<cur, world, dur>>

CtrlTx == [kind |-> "create", from |-> "idx", to |-> NULL, ckind |-> "ctrl", ops |-> <<>>, lc |-> [fn |-> "none"], gas |-> "ample", txid |-> "zero"]

(* brc20_initialise at the next height: the controller deployment and its block *)
InitialiseOk(id, hash, ts, height, logs) ==
  /\ height = NextH
  /\ cur.n = 0
  /\ Resolve(hash, height) \notin Hashes
  /\ id \notin ChainIds
  /\ LET out == ExecCreate(world, "idx", "ctrl")
         \* the controller lives at a fixed address: name it "ctrl"
         w1 == [world EXCEPT !.nonce = Put(Put(@, "idx", Nonce(world, "idx") + 1), "ctrl", 1),
                             !.code = Put(@, "ctrl", "ctrl")]
         rec == [id |-> id, from |-> "idx", to |-> NULL, nonce |-> Nonce(world, "idx"),
                 insc |-> "BRC20_CONTROLLER_INIT", status |-> 1, logs |-> logs, created |-> "ctrl", valid |-> TRUE, src |-> CtrlTx]
         p1 == Sweep(pool, height)
     IN  /\ Nonce(world, "idx") = 0          \* the fixed controller address is the first creation of the indexer
         /\ world' = w1
         /\ chain' = Append(chain, [hash |-> Resolve(hash, height), ts |-> ts, txs |-> <<rec>>])
         /\ pool' = p1
         /\ snaps' = Append(snaps, [world |-> w1, pool |-> p1])
         /\ maxEver' = IF height > maxEver THEN height ELSE maxEver
  /\ UNCHANGED <<cur, dur>>

(* same genesis again: accepted no-op *)
InitialiseAgain(hash, height) ==
  /\ height <= Height /\ Blk(height).hash = Resolve(hash, height)
  /\ UNCHANGED vars

-----------------------------------------------------------------------------
(* Durability and reorg (C01, C03)                                           *)

Now == [chain |-> chain, world |-> world, pool |-> pool, snaps |-> snaps]

CommitOk == cur.n = 0 /\ dur' = Now /\ UNCHANGED <<chain, cur, world, pool, snaps, maxEver>>

(* brc20_clearCaches / stop and reopen: back to the last commit *)
FallBack ==
  /\ chain' = dur.chain /\ world' = dur.world /\ pool' = dur.pool /\ snaps' = dur.snaps
  /\ cur' = NoCur
  /\ UNCHANGED <<maxEver, dur>>

ApiHeight == IF Height < 0 THEN 0 ELSE Height          \* an empty database reports height 0

ReorgAcceptable(n) == cur.n = 0 /\ n <= ApiHeight /\ n >= 0 /\ maxEver <= n + W
ReorgModelled(n) == n >= Base \/ Height < 0      \* a target inside the implicit blocks is outside this model (Base > 0 only)

(* Truncation to the end of block n.  Also for n = current height: whatever was submitted for the   *)
(* block above n since the last boundary (transactions parked in the pending pool) goes as well.   *)
ReorgOk(n) ==
  /\ ReorgAcceptable(n) /\ ReorgModelled(n)
  /\ IF Height < 0
     THEN UNCHANGED vars
     ELSE /\ chain' = SubSeq(chain, 1, n - Base + 1)
          /\ snaps' = SubSeq(snaps, 1, n - Base + 1)
          /\ world' = snaps[n - Base + 1].world
          /\ pool' = snaps[n - Base + 1].pool
          /\ dur' = [chain |-> chain', world |-> world', pool |-> pool', snaps |-> snaps']
          /\ UNCHANGED <<cur, maxEver>>

-----------------------------------------------------------------------------
(* Initial state: an empty database directory *)
Init ==
  /\ chain = <<>> /\ cur = NoCur /\ world = EmptyWorld /\ pool = <<>> /\ snaps = <<>>
  /\ maxEver = Base - 1
  /\ dur = [chain |-> <<>>, world |-> EmptyWorld, pool |-> <<>>, snaps |-> <<>>]

-----------------------------------------------------------------------------
(* Derived indexes and the chain-coherence laws (C06)                        *)

AllTxs == UNION {{[b |-> Base + i - 1, i |-> j - 1, tx |-> chain[i].txs[j]] : j \in 1..Len(chain[i].txs)} : i \in 1..Len(chain)}
            \cup {[b |-> NextH, i |-> j - 1, tx |-> cur.txs[j]] : j \in 1..Len(cur.txs)}

TxById(id) == CHOOSE x \in AllTxs : x.tx.id = id
HasTx(id) == \E x \in AllTxs : x.tx.id = id

(* the transaction an inscription id resolves to: the latest one carrying it *)
Later(x, y) == x.b > y.b \/ (x.b = y.b /\ x.i > y.i)
InscTx(insc) ==
  LET c == {x \in AllTxs : x.tx.insc = insc}
  IN  IF c = {} THEN NULL ELSE (CHOOSE x \in c : \A y \in c : x = y \/ Later(x, y)).tx.id

UniqueIds == \A x, y \in AllTxs : x.tx.id = y.tx.id => x = y

SnapsAligned == Len(snaps) = Len(chain)

(* the world is a function of the chain: the last snapshot is the state at  *)
(* the last block boundary (used by ReorgIsTruncation)                       *)
BoundaryIsSnap == (cur.n = 0 /\ Len(chain) > 0) => snaps[Len(chain)].world = world

NoncesConsecutive ==
  \A a \in {x.tx.from : x \in AllTxs} :
    LET mine == {x \in AllTxs : x.tx.from = a /\ x.tx.valid}
    IN  /\ \A x, y \in mine : x.tx.nonce = y.tx.nonce => x = y
        /\ \A x \in mine : \A k \in 0..(x.tx.nonce - 1) : \E y \in mine : y.tx.nonce = k /\ Later(x, y)

LedgerConserved == \A t \in DOMAIN world.tok : Supply(world, t) <= MAXV

MaxEverBounds == maxEver >= Height

TypeOK ==
  /\ cur.n = Len(cur.txs)
  /\ SnapsAligned
  /\ MaxEverBounds
=============================================================================
