------------------------------ MODULE AuthGate ------------------------------
(***************************************************************************)
(* C12 - the authentication gate as a decision table.  A request is        *)
(* (method, form, header) against a server with authentication on or off;  *)
(* the table says whether the method body may run and what the client      *)
(* sees.  TLC enumerates the whole table (it is finite), checks the        *)
(* property on it and prints every case; the harness replays every case    *)
(* against a real server started through the public start().              *)
(*                                                                         *)
(* Mutating is not a guess: it is the set of RPC methods whose Brc20Ref    *)
(* action is not UNCHANGED vars (MineOk, AddTx x4, TransactExec/Park,      *)
(* InitialiseOk, FinaliseOk, ReorgOk, CommitOk (moves dur), FallBack).     *)
(***************************************************************************)
EXTENDS Naturals, Sequences, FiniteSets, TLC, Json

CONSTANTS Methods        \* every method registered by the real server (read from the RpcModule at run time)

Mutating == {"brc20_mine", "brc20_deploy", "brc20_call", "brc20_deposit", "brc20_withdraw", "brc20_transact",
             "brc20_initialise", "brc20_finaliseBlock", "brc20_reorg", "brc20_commitToDatabase", "brc20_clearCaches"}

(* reads documented as indexer-only (expensive debug methods): protected although they change nothing *)
IndexerOnlyReads == {"debug_getBlockTraceString", "debug_getBlockTraceHash"}
Protected == Mutating \cup IndexerOnlyReads

Forms   == {"call", "notification", "batch_first", "batch_mid", "batch_last", "batch_notification",
            "batch_after_invalid", "batch_before_invalid"}      \* a malformed element (1, {"foo":"bar"}) as neighbour
(* besides the plain wrong ones: an empty value, a proper prefix of the right value ("Basic", and the right value minus *)
(* its last character) and the right value with a character appended - what a sloppy comparison would let through     *)
(* "token_case_folded": the right scheme word, the right token with its letters lower-cased (base64 is case-sensitive: other  *)
(* credentials).  A lower-case SCHEME word with the right token is deliberately not a class: RFC 7235 allows it either way.  *)
Headers == {"none", "wronguser", "wrongpass", "malformed", "empty", "scheme_only", "truncated", "extended", "token_case_folded", "correct"}
AuthSet == {TRUE, FALSE}
(* the same port answers plain HTTP POSTs and WebSocket upgrades; on a WebSocket connection the header travels *)
(* with the upgrade request and every frame sent afterwards is judged by it                                    *)
Transports == {"http", "ws"}
WsForms == {"call", "notification", "batch_mid", "batch_notification", "batch_after_invalid"}

VARIABLES req, executed, reply

vars == <<req, executed, reply>>

Authorised(r) == ~r.auth \/ r.header = "correct"

(* the gate: what the server does with a request *)
Decide(r) ==
  LET run == Authorised(r) \/ r.method \notin Protected
      note == r.form \in {"notification", "batch_notification"}
  IN  [executed |-> IF ~run THEN "no" ELSE IF note THEN "maybe" ELSE "yes",   \* a JSON-RPC server may ignore notifications
       reply |-> IF run THEN (IF r.form \in {"notification", "batch_notification"} THEN "none" ELSE "answer")
                 ELSE (IF r.form = "notification" THEN "none" ELSE "unauthorized")]

Requests == {r \in [method : Methods, form : Forms, header : Headers, auth : AuthSet, transport : Transports] :
               r.transport = "ws" => r.form \in WsForms}

Init == req = [method |-> "none", form |-> "call", header |-> "none", auth |-> FALSE, transport |-> "http"] /\ executed = "no" /\ reply = "none"

Next ==
  /\ req.method = "none"
  /\ \E r \in Requests :
    /\ req' = r
    /\ executed' = Decide(r).executed
    /\ reply' = Decide(r).reply
    /\ PrintT(<<"CASE", ToJson([method |-> r.method, form |-> r.form, header |-> r.header, auth |-> r.auth, transport |-> r.transport,
                                  executed |-> Decide(r).executed, reply |-> Decide(r).reply,
                                  mutating |-> r.method \in Mutating])>>)

Spec == Init /\ [][Next]_vars

(* C12 *)
NoDriveWithoutCredentials ==
  (req.auth /\ req.header # "correct" /\ req.method \in Mutating) => (executed = "no" /\ reply \in {"unauthorized", "none"})
PublicReadsWork == (req.method \in Methods \ Protected) => executed # "no"
EveryMutatingMethodProtected == Mutating \subseteq Protected
CredentialsWork == (req.header = "correct" /\ req.method \in Methods) => executed # "no"
AuthOffOpen == (~req.auth /\ req.method \in Methods) => executed # "no"
(* a method that can mutate state is protected: by construction of Decide, and checked against the real
   deny-list by the harness (a registered method that changes the digest must be refused without credentials) *)
=============================================================================
