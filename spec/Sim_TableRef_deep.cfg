SPECIFICATION Spec
CONSTANTS
  W = 10
  Vals = {1, 2, 3}
  NoVal = 0
  MaxLen = 110
  Deep = TRUE
CHECK_DEADLOCK FALSE
