SPECIFICATION MSpec
CONSTANTS
  W = 2
  NonceWin = 2
  AgeWin = 2
  MAXV = 1000000000
  PragueFrom = 0
  Base = 0
  MaxHeight = 2
  MaxTxPerBlock = 2
INVARIANTS MInv
CHECK_DEADLOCK FALSE
