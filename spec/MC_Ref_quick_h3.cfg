SPECIFICATION MSpec
CONSTANTS
  W = 2
  NonceWin = 2
  AgeWin = 2
  MAXV = 1000000000
  PragueFrom = 0
  Base = 0
  MaxHeight = 3
  MaxTxPerBlock = 1
INVARIANTS MInv
CHECK_DEADLOCK FALSE
