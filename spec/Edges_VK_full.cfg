SPECIFICATION ESpec
CONSTANTS
  W = 10
  Vals = {1}
  Blocks = {0, 1, 2, 3, 4, 5, 6, 7, 8, 9, 10, 11, 12}
  NoVal = 0
  DumpEdges = TRUE
VIEW EdgeView
CONSTRAINT DenseHist
ACTION_CONSTRAINT EdgeDump
CHECK_DEADLOCK FALSE
