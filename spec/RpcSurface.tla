----------------------------- MODULE RpcSurface -----------------------------
(***************************************************************************)
(* C09 - no request can crash, hang or wedge the server.                   *)
(* State-machine part: a handler that runs EVM code moves the database out *)
(* of its slot for the duration of the call.  A panic at that moment       *)
(* leaves an empty database behind a poisoned lock: every later request    *)
(* panics as well.  With `Panicking` (the set of request cases whose       *)
(* handler panics) empty the server stays alive forever; with one element  *)
(* it can be wedged - so liveness reduces to "no handler panics, no        *)
(* handler loops", which quantifies over all inputs and is EXPLORED by the *)
(* harness over the class partition enumerated here (one case per method x *)
(* parameter x class x engine state; RpcSchema.tla is generated from the   *)
(* real method table on every run).                                        *)
(***************************************************************************)
EXTENDS Naturals, Sequences, FiniteSets, TLC, Json, RpcSchema

CONSTANTS States,      \* engine state classes
          PanicMethod  \* the method whose handler panics ("none": the claim; a method name: the witness)

Cases == UNION {UNION {{[method |-> m, param |-> i - 1, type |-> Schema[m][i][2], class |-> c, state |-> st]
                        : c \in Classes[Schema[m][i][2]], st \in States} : i \in DOMAIN Schema[m]} : m \in DOMAIN Schema}

Panicking == {c \in Cases : c.method = PanicMethod}

Executing == {"eth_call", "eth_callMany", "eth_estimateGas", "eth_estimateGasMany", "brc20_balance", "brc20_deploy", "brc20_call",
              "brc20_transact", "brc20_deposit", "brc20_withdraw", "brc20_initialise"}

(* Below the JSON-RPC layer: what arrives on the socket need not be one well-formed request.  The frame classes are sent to  *)
(* a server started by the public start(); the transport may answer with an HTTP error or close the connection, but the    *)
(* engine behind it must keep answering (the same Alive probe).  Limits: BatchLimit calls per batch, MaxBody bytes.         *)
Frames == {"empty_body", "not_json", "non_utf8", "truncated_json", "deep_nesting", "batch_empty", "batch_at_limit", "batch_over_limit",
           "batch_huge", "body_at_limit", "body_over_limit", "length_longer_than_body", "length_shorter_than_body", "no_length",
           "wrong_content_type", "get", "put", "garbage_request_line", "huge_header", "chunked", "pipelined_two", "id_types",
           "duplicate_keys", "params_by_name_for_positional", "version_1_0", "slow_loris_partial"}

VARIABLES slot,     \* "present" | "taken": is the database in its slot?
          last,     \* outcome of the last request: "response" | "panic" | "none"
          emitted

vars == <<slot, last, emitted>>

Init == slot = "present" /\ last = "none" /\ emitted = FALSE

(* print the case list once *)
Emit ==
  /\ ~emitted
  /\ \A c \in Cases : PrintT(<<"CASE", ToJson(c)>>)
  /\ \A f \in Frames : PrintT(<<"FRAME", f>>)
  /\ emitted' = TRUE /\ UNCHANGED <<slot, last>>

Request(c) ==
  /\ emitted
  /\ IF slot = "taken"
     THEN last' = "panic" /\ UNCHANGED slot                       \* every handler touches the (empty) database: wedged
     ELSE IF c \in Panicking
          THEN /\ last' = "panic"
               /\ slot' = IF c.method \in Executing THEN "taken" ELSE "present"
          ELSE last' = "response" /\ UNCHANGED slot
  /\ UNCHANGED emitted

Next == Emit \/ \E c \in Cases : Request(c)
Spec == Init /\ [][Next]_vars

Alive == slot = "present"
NeverPanics == last # "panic"
=============================================================================
