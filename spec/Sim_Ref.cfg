SPECIFICATION GSpec
CONSTANTS
  W = 10
  NonceWin = 10
  AgeWin = 10
  MAXV = 1000000000
  PragueFrom = 0
  Base = 0
  Senders = {"s1", "s2"}
  Signers = {"k1", "k2"}
  MaxLen = 40
  Focus = "mixed"
INVARIANTS GenInv
CHECK_DEADLOCK FALSE
