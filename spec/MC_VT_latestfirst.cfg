SPECIFICATION Spec
CONSTANTS
  W = 2
  NoVal = 0
  KeySet = {"a", "b"}
  Vals = {1, 2}
  MaxH = 4
  HistFirst = FALSE
  OldLast = FALSE
INVARIANTS TypeOK ReadsRefineMap CommitInvisible VersionBound Recoverable
CHECK_DEADLOCK FALSE
