------------------------------ MODULE TraceRef ------------------------------
(***************************************************************************)
(* Trace validation: every event recorded from the real engine must be a   *)
(* step of Brc20Ref, and the projection `obs` of the real instance taken   *)
(* after the call must equal the reference state.  One line = one event.   *)
(*   JAVA: -Dtlc2.tool.queue.IStateQueue=StateDeque -Xss1g, -workers 1     *)
(*   env TRACE = path of the ndjson file                                   *)
(***************************************************************************)
EXTENDS Brc20Ref, Json, IOUtils, TLCExt

Rec == ndJsonDeserialize(IOEnv.TRACE)

VARIABLES l,
          pred,     \* the last eth_call at a block boundary: [tx, ok, out], valid until the state changes (C17)
          torn      \* C04: [on, cap] - the process died inside commit/reorg; until a reorg to a durable height
                    \* <= cap the observable state is unconstrained

tvars == <<chain, cur, world, pool, snaps, maxEver, dur, l, pred, torn>>

NotTorn == [on |-> FALSE, cap |-> 0]

NoPred == [tx |-> [kind |-> "none"], ok |-> FALSE, out |-> "none"]

E == Rec[l]
IsEv(name) == l <= Len(Rec) /\ Rec[l].ev = name /\ l' = l + 1

TracesOn == Rec[1].traces

(* a failed check names itself; every event has exactly one candidate      *)
(* disjunct, so a MISMATCH line is a real rejection                         *)
Chk(label, cond) == IF cond THEN TRUE ELSE (PrintT(<<"MISMATCH", l, label>>) /\ FALSE)

Item(label, x, cond, expected) ==
  IF cond THEN TRUE ELSE (PrintT(<<"ITEM", l, label, x, expected>>) /\ FALSE)

Seen(rc) == [status |-> rc.status, logs |-> rc.logs, created |-> rc.created]

-----------------------------------------------------------------------------
(* The projection of a reference state S = [chain, cur, world, pool]        *)

HeightOf(S) == Base + Len(S.chain) - 1

AllTxsOf(S) ==
  UNION {{[b |-> Base + i - 1, i |-> j - 1, bh |-> S.chain[i].hash, tx |-> S.chain[i].txs[j]] : j \in 1..Len(S.chain[i].txs)} : i \in 1..Len(S.chain)}
    \cup {[b |-> Base + Len(S.chain), i |-> j - 1, bh |-> S.cur.hash, tx |-> S.cur.txs[j]] : j \in 1..Len(S.cur.txs)}

(* the implicit blocks the projection can still see (it looks at the last 14 heights and remembers their hashes) *)
ImplicitSeen == (IF Base > 40 THEN Base - 40 ELSE 0)..(Base - 1)

LaterT(x, y) == x.b > y.b \/ (x.b = y.b /\ x.i > y.i)
LatestOf(c) == CHOOSE x \in c : \A y \in c : x = y \/ LaterT(x, y)

RECURSIVE FlatLogs(_, _, _)
FlatLogs(txs, j, li) ==
  IF j > Len(txs) THEN <<>>
  ELSE LET lg == txs[j].logs
       IN  [k \in 1..Len(lg) |-> [id |-> txs[j].id, li |-> li + k - 1, a |-> lg[k].a, t |-> lg[k].t]]
           \o FlatLogs(txs, j + 1, li + Len(lg))

CodeObs(c) == IF c \in {"none", "empty"} THEN "none" ELSE c

ObsOK(o, S) ==
  LET all == AllTxsOf(S)
      H == HeightOf(S)
      w == S.world
  IN
  /\ Chk("height", o.height = IF H < 0 THEN 0 ELSE H)
  /\ Chk("blocks",
       \A i \in DOMAIN o.blocks :
         LET b == o.blocks[i] IN
         IF b.h <= H
         THEN /\ b.hash = BlkOf(S.chain, b.h).hash
              /\ b.parent = (IF b.h = 0 THEN "zero" ELSE BlkOf(S.chain, b.h - 1).hash)
              /\ b.ts = BlkOf(S.chain, b.h).ts
              /\ b.txs = [j \in 1..Len(BlkOf(S.chain, b.h).txs) |-> BlkOf(S.chain, b.h).txs[j].id]
         ELSE b.hash = NULL)
  /\ Chk("blocks-cover", \A h \in o.lo..H : \E i \in DOMAIN o.blocks : o.blocks[i].h = h)
  /\ Chk("byhash",
       \A i \in DOMAIN o.byhash :
         LET x == o.byhash[i]
             hs == {h \in (Base..H) \cup ImplicitSeen : BlkOf(S.chain, h).hash = x.hash}
         IN  IF hs = {} THEN x.h = -1 ELSE x.h \in hs /\ Cardinality(hs) = 1)
  /\ Chk("txs",
       \A i \in DOMAIN o.txs :
         LET x == o.txs[i]
             ys == {y \in all : y.tx.id = x.id}
         IN  Item("tx", x, IF ys = {}
             THEN ~x.present /\ x.trace = "no"
             ELSE LET y == CHOOSE y \in ys : TRUE IN
                  /\ Cardinality(ys) = 1
                  /\ x.present
                  /\ x.b = y.b /\ x.i = y.i /\ x.bh = y.bh
                  /\ x.from = y.tx.from /\ x.to = y.tx.to /\ x.nonce = y.tx.nonce
                  /\ x.insc = y.tx.insc
                  /\ x.status = y.tx.status /\ x.logs = y.tx.logs /\ x.created = y.tx.created
                  /\ x.trace = (IF TracesOn THEN "yes" ELSE "no"), ys))
  /\ Chk("txs-cover", \A y \in all : \E i \in DOMAIN o.txs : o.txs[i].id = y.tx.id)
  /\ Chk("byidx",
       \A i \in DOMAIN o.byidx :
         LET x == o.byidx[i]
             ys == {y \in all : y.b = x.b /\ y.i = x.i}
         IN  Item("byidx", x, IF ys = {} THEN x.id = NULL ELSE x.id = (CHOOSE y \in ys : TRUE).tx.id, ys))
  /\ Chk("insc",
       \A i \in DOMAIN o.insc :
         LET x == o.insc[i]
             c == {y \in all : y.tx.insc = x.insc}
         IN  Item("insc", x, x.id = (IF c = {} THEN NULL ELSE LatestOf(c).tx.id), c))
  /\ Chk("cinsc",
       \A i \in DOMAIN o.cinsc :
         LET x == o.cinsc[i]
             c == {y \in all : y.tx.created = x.a}
             failed == {y \in all : y.tx.to = NULL /\ y.tx.created = NULL /\ CreateAddr(y.tx.from, y.tx.nonce) = x.a}
         IN  IF c # {} THEN x.insc = LatestOf(c).tx.insc
             ELSE IF failed # {} THEN TRUE      \* a failed creation may or may not leave an entry (unobservable use)
             ELSE x.insc = NULL)
  /\ Chk("nonces", \A i \in DOMAIN o.nonces : Item("nonce", o.nonces[i], o.nonces[i].n = Nonce(w, o.nonces[i].a), Nonce(w, o.nonces[i].a)))
  /\ Chk("code", \A i \in DOMAIN o.code : Item("code", o.code[i], o.code[i].c = CodeObs(Code(w, o.code[i].a)), Code(w, o.code[i].a)))
  /\ Chk("cells", \A i \in DOMAIN o.cells : Item("cell", o.cells[i], o.cells[i].v = Cell(w, o.cells[i].a, o.cells[i].s), Cell(w, o.cells[i].a, o.cells[i].s)))
  /\ Chk("probe", \A i \in DOMAIN o.probe : Item("probe", o.probe[i], o.probe[i].v = PCell(w, o.probe[i].a, o.probe[i].s), PCell(w, o.probe[i].a, o.probe[i].s)))
  /\ Chk("pool",
       {<<o.pool[i].signer, o.pool[i].nonce, o.pool[i].id>> : i \in DOMAIN o.pool}
         = {<<k[1], k[2], S.pool[k].id>> : k \in DOMAIN S.pool})
  /\ Chk("pool-dup", Cardinality({<<o.pool[i].signer, o.pool[i].nonce>> : i \in DOMAIN o.pool}) = Len(o.pool))
  /\ Chk("logs",
       \A i \in DOMAIN o.logs :
         LET x == o.logs[i] IN
         x.h <= H => Item("logs", x, x.logs = FlatLogs(BlkOf(S.chain, x.h).txs, 1, 0), FlatLogs(BlkOf(S.chain, x.h).txs, 1, 0)))
  /\ Chk("ledger-bal",
       o.boundary => \A i \in DOMAIN o.ledger.bals :
         LET x == o.ledger.bals[i] IN Item("bal", x, x.v = Bal(w, x.t, x.a), Bal(w, x.t, x.a)))
  /\ Chk("ledger-supply",
       o.boundary => \A i \in DOMAIN o.ledger.supply :
         LET x == o.ledger.supply[i] IN Item("supply", x, x.tok = Tok(w, x.t) /\ x.v = Supply(w, x.t), <<Tok(w, x.t), Supply(w, x.t)>>))
  /\ Chk("flags", \A f \in DOMAIN o.flags : IF o.flags[f] THEN TRUE ELSE (PrintT(<<"FLAG", l, f>>) /\ FALSE))

Post == [chain |-> chain', cur |-> cur', world |-> world', pool |-> pool']

-----------------------------------------------------------------------------
(* One disjunct per event kind                                               *)

InitVals ==
  /\ chain' = <<>> /\ cur' = NoCur /\ world' = EmptyWorld /\ pool' = <<>> /\ snaps' = <<>>
  /\ maxEver' = Base - 1
  /\ dur' = [chain |-> <<>>, world |-> EmptyWorld, pool |-> <<>>, snaps |-> <<>>]

(* with Base > 0 the harness has mined and committed Base empty blocks right after opening the directory *)
TrReset == IsEv("Reset") /\ InitVals /\ pred' = NoPred /\ torn' = NotTorn
           /\ Chk("base", (IF "base" \in DOMAIN E THEN E.base ELSE 0) = Base)

(* C04: the process dies before persistent write `at` of the operation.                            *)
(*  finalise: the block is lost with everything uncommitted (like a restart)                       *)
(*  commit  : heights committed before stay recoverable: cap = durable height                      *)
(*  reorg(n): cap = min(durable height, n)                                                         *)
DurHeight == Base + Len(dur.chain) - 1
TrCrash ==
  /\ IsEv("Crash")
  /\ IF E.during = "finalise"
     THEN FallBack /\ torn' = NotTorn
     ELSE /\ UNCHANGED vars
          /\ torn' = [on |-> TRUE, cap |-> IF E.during = "reorg" /\ E.n < DurHeight THEN E.n ELSE DurHeight]
  /\ pred' = NoPred

TrReopen == IsEv("Reopen") /\ Chk("reopen", E.res = "ok") /\ UNCHANGED <<vars, torn>> /\ pred' = NoPred

(* the recovering reorg: to a height committed before the crash, not above the interrupted reorg's target, inside the window *)
TrRecover ==
  /\ IsEv("Reorg") /\ torn.on
  /\ Chk("recover-target-admissible", E.n >= Base /\ E.n <= torn.cap /\ maxEver <= E.n + W)    \* the harness only asks admissible targets
  /\ Chk("recover-accepted", E.res = "ok")
  /\ chain' = SubSeq(chain, 1, E.n - Base + 1)
  /\ snaps' = SubSeq(snaps, 1, E.n - Base + 1)
  /\ world' = snaps[E.n - Base + 1].world
  /\ pool' = snaps[E.n - Base + 1].pool
  /\ cur' = NoCur
  /\ dur' = [chain |-> chain', world |-> world', pool |-> pool', snaps |-> snaps']
  /\ UNCHANGED maxEver
  /\ torn' = NotTorn /\ pred' = NoPred

(* C17: the transaction executed right after an eth_call with the same sender, target and data *)
(* has the predicted success flag and return data                                               *)
PredHolds(tx, rc) ==
  (pred.tx = tx /\ TracesOn) => (rc.status = (IF pred.ok THEN 1 ELSE 0) /\ rc.out = pred.out)

Predictable(tx) == tx.gas \in {"ample", "max"} /\ Class(world, tx) = "full" /\ Code(world, IF tx.kind = "create" THEN "dead" ELSE tx.to) # "probe"

TrEthCall ==
  /\ IsEv("EthCall")
  /\ Chk("res", E.res = "ok")
  /\ Chk("boundary", cur.n = 0)
  /\ Predictable(E.tx) =>
        Chk("eth_call-result", LET r == EvalMany(world, <<E.tx>>)[1] IN E.ok = r.ok /\ (E.ok => E.out = r.out))
  /\ pred' = [tx |-> E.tx, ok |-> E.ok, out |-> E.out]
  /\ UNCHANGED vars

TrEstimate ==
  /\ IsEv("Estimate")
  /\ Chk("res", E.res = "ok")
  /\ Predictable(E.tx) => Chk("estimate-result", E.ok = EvalMany(world, <<E.tx>>)[1].ok)
  /\ pred' = NoPred
  /\ UNCHANGED vars

TrCallMany ==
  /\ IsEv("CallMany")
  /\ Chk("res", E.res = "ok")
  /\ (\A i \in DOMAIN E.txs : E.txs[i].gas \in {"ample", "max"} /\ E.txs[i].lc.fn = "none") =>
        LET r == EvalMany(world, E.txs)
            allok == \A i \in DOMAIN r : r[i].ok
        IN  /\ Chk("callmany-ok", E.ok = allok)
            /\ Chk("callmany-outs", (E.ok /\ ~E.estimate) => E.outs = [i \in DOMAIN r |-> r[i].out])
            /\ Chk("callmany-failidx", (~E.ok /\ E.failidx >= 0) => E.failidx + 1 = CHOOSE i \in DOMAIN r : ~r[i].ok /\ \A j \in 1..(i - 1) : r[j].ok)
  /\ pred' = NoPred
  /\ UNCHANGED vars

TrInitialise ==
  /\ IsEv("Initialise")
  /\ IF E.res \in {"ok", "enverr"}
     THEN IF E.height <= Height
          THEN Chk("init-again", Blk(E.height).hash = Resolve(E.hash, E.height)) /\ UNCHANGED vars
          ELSE /\ Chk("init-height", E.height = NextH /\ cur.n = 0)
               /\ Chk("init-hash", Resolve(E.hash, E.height) \notin Hashes)
               /\ Chk("init-rc", E.rc.id = E.id /\ E.rc.status = 1 /\ E.rc.created = "ctrl" /\ E.rc.from = "idx")
               /\ InitialiseOk(E.id, E.hash, E.ts, E.height, E.rc.logs)
     ELSE Chk("res", E.res = "err") /\ Reject

TrMine ==
  /\ IsEv("Mine")
  /\ IF E.res = "ok" THEN Chk("mine", cur.n = 0) /\ MineOk(E.k, E.ts)
     ELSE Chk("res", E.res = "err") /\ Reject

RcLinks(rc, idx, hash, from, to) ==
  /\ rc.b = NextH /\ rc.i = idx /\ rc.bh = Resolve(hash, NextH) /\ rc.from = from /\ rc.to = to

TrAddTx ==
  /\ IsEv("AddTx")
  /\ IF E.res = "ok"
     THEN /\ Chk("proto", ProtoOk(E.idx, E.hash, E.ts))
          /\ Chk("fresh-id", E.rc.id \notin (ChainIds \cup CurIds))
          /\ Chk("receipt", SeenOk(world, E.tx, Seen(E.rc)))
          /\ Chk("rc-links", RcLinks(E.rc, E.idx, E.hash, E.tx.from, IF E.tx.kind = "create" THEN NULL ELSE E.tx.to))
          /\ Chk("returned=served", E.returned_eq_served)
          /\ Chk("predicted-by-eth_call", PredHolds(E.tx, E.rc))
          /\ Chk("tx-output", (TracesOn /\ Predictable(E.tx)) => E.rc.out = CallOut(world, E.tx))
          /\ AddTx(E.rc.id, E.tx, E.insc, E.idx, E.hash, E.ts, Seen(E.rc))
     ELSE Chk("res", E.res = "err") /\ Reject

RECURSIVE SeensOf(_)
SeensOf(rcs) == IF rcs = <<>> THEN <<>> ELSE <<Seen(Head(rcs))>> \o SeensOf(Tail(rcs))

TrTransact ==
  /\ IsEv("Transact")
  /\ IF E.res = "ok" /\ E.rcs = <<>>
     THEN IF E.chain = "own" /\ Nonce(world, E.tx.from) < E.nonce /\ E.nonce < Nonce(world, E.tx.from) + NonceWin
          THEN TransactPark(E.id, E.tx, E.insc, E.nonce, E.txid)
          ELSE Chk("ignorable", TransactIgnorable(E.tx, E.nonce, E.chain = "own")) /\ TransactIgnore
     ELSE IF E.res = "ok"
     THEN LET n0 == Nonce(world, E.tx.from)
              ns == DrainSeq(pool, E.tx.from, n0 + 1)
              keysAfter == {<<E.pool_after[i].signer, E.pool_after[i].nonce>> : i \in DOMAIN E.pool_after}
              drained == [k \in (DOMAIN pool) \ {<<E.tx.from, n>> : n \in {ns[j] : j \in DOMAIN ns}} |-> pool[k]]
              pnew == [k \in (DOMAIN drained) \cap keysAfter |-> drained[k]]
          IN  /\ Chk("own-chain", E.chain = "own")
              /\ Chk("next-nonce", E.nonce = n0)
              /\ Chk("proto", ProtoOk(E.idx, E.hash, E.ts))
              /\ Chk("receipt-count", Len(E.rcs) = 1 + Len(ns))
              /\ Chk("rc-ids", E.rcs[1].id = E.id /\ \A j \in 1..Len(ns) : E.rcs[j + 1].id = pool[<<E.tx.from, ns[j]>>].id)
              /\ Chk("rc-links", \A j \in 1..Len(E.rcs) : E.rcs[j].b = NextH /\ E.rcs[j].i = E.idx + j - 1
                                   /\ E.rcs[j].bh = Resolve(E.hash, NextH) /\ E.rcs[j].from = E.tx.from)
              /\ Chk("returned=served", E.returned_eq_served)
              /\ Chk("fresh-id", E.id \notin (ChainIds \cup CurIds))
              /\ Chk("receipt", SeenOk(world, E.tx, Seen(E.rcs[1])))
              /\ TransactExec(E.id, E.tx, E.insc, E.idx, E.hash, E.ts, SeensOf(E.rcs), pnew)
     ELSE Chk("res", E.res = "err") /\ Reject

TrFinalise ==
  /\ IsEv("Finalise")
  /\ IF E.res = "ok" THEN Chk("proto", ProtoOk(E.count, E.hash, E.ts)) /\ FinaliseOk(E.ts, E.hash, E.count)
     ELSE Chk("res", E.res = "err") /\ Reject

TrCommit ==
  /\ IsEv("Commit")
  /\ IF E.res = "ok" THEN Chk("commit", cur.n = 0) /\ CommitOk
     ELSE Chk("res", E.res = "err") /\ Reject

TrClear == IsEv("Clear") /\ Chk("res", E.res = "ok") /\ FallBack
TrRestart == IsEv("Restart") /\ Chk("res", E.res = "ok") /\ FallBack

TrReorg ==
  /\ IsEv("Reorg") /\ ~torn.on
  /\ IF E.res = "ok"
     THEN IF ReorgAcceptable(E.n) THEN ReorgOk(E.n)
          \* outside the window: must be refused (a reorg to the current height of a database that has
          \* nothing above it is harmless either way)
          ELSE Chk("reorg-accepted", cur.n = 0 /\ E.n = ApiHeight /\ pool = (IF Len(chain) = 0 THEN pool ELSE snaps[Len(chain)].pool)) /\ UNCHANGED vars
     ELSE /\ Chk("res", E.res = "err")
          /\ Chk("reorg-refused", ~ReorgAcceptable(E.n))      \* C01: accepted whenever inside the window
          /\ Reject

(* C18: eth_getLogs returns exactly the matching logs of the range, in chain order *)
PosMatch(p, lg, i) ==
  IF p.k = "any" THEN "yes"                       \* null: this position is unconstrained, also beyond the log's last topic
  ELSE IF i > Len(lg.t) THEN "no"
  ELSE IF lg.t[i] \in {ToString(p.v[j]) : j \in DOMAIN p.v} THEN "yes" ELSE "no"

LogMatch(f, lg) ==
  LET ms == {PosMatch(f.topics[i], lg, i) : i \in DOMAIN f.topics}
  IN  IF f.addr # NULL /\ f.addr # lg.a THEN "no"
      ELSE IF "no" \in ms THEN "no"
      ELSE IF "maybe" \in ms THEN "maybe" ELSE "yes"

RangeLogs(lo, hi) ==
  UNION {LET fl == FlatLogs(Blk(b).txs, 1, 0)
         IN  {[b |-> b, li |-> fl[k].li, id |-> fl[k].id, a |-> fl[k].a, t |-> fl[k].t] : k \in DOMAIN fl}
         : b \in {x \in lo..hi : x <= Height /\ x >= 0}}

TrGetLogs ==
  /\ IsEv("GetLogs")
  /\ Chk("res", E.res = "ok")
  /\ LET f == E.filter
         H == IF Height < 0 THEN 0 ELSE Height
         lo == IF f.from < 0 THEN H ELSE f.from
         hi == IF f.to < 0 THEN lo ELSE f.to
         inrange == RangeLogs(lo, hi)
         must == {x \in inrange : LogMatch(f, [a |-> x.a, t |-> x.t]) = "yes"}
         may == {x \in inrange : LogMatch(f, [a |-> x.a, t |-> x.t]) # "no"}
         got == {E.logs[i] : i \in DOMAIN E.logs}
     IN  IF hi < lo THEN Chk("reversed-range", ~E.ok \/ E.logs = <<>>)
         ELSE IF hi - lo > 5 THEN Chk("wide-range-refused", ~E.ok)
         ELSE /\ Chk("getlogs-ok", E.ok)
              /\ Chk("getlogs-sound", got \subseteq may)
              /\ Chk("getlogs-complete", must \subseteq got)
              /\ Chk("getlogs-once", Cardinality(got) = Len(E.logs))
              /\ Chk("getlogs-order", \A i \in 1..(Len(E.logs) - 1) :
                      E.logs[i].b < E.logs[i + 1].b \/ (E.logs[i].b = E.logs[i + 1].b /\ E.logs[i].li < E.logs[i + 1].li))
  /\ pred' = NoPred
  /\ UNCHANGED vars

TraceNext ==
  /\ \/ TrReset \/ TrCrash \/ TrReopen \/ TrRecover
     \/ ((TrEthCall \/ TrEstimate \/ TrCallMany \/ TrGetLogs) /\ UNCHANGED torn)
     \/ ((TrInitialise \/ TrMine \/ TrAddTx \/ TrTransact \/ TrFinalise \/ TrCommit \/ TrClear \/ TrRestart \/ TrReorg)
          /\ pred' = NoPred /\ UNCHANGED torn)
  /\ (Rec[l].ev \in {"Reset", "GetLogs", "Crash", "Reopen"} \/ "noobs" \in DOMAIN Rec[l] \/ ObsOK(Rec[l].obs, Post))

TraceInit == Init /\ l = 1 /\ pred = NoPred /\ torn = NotTorn

TraceSpec == TraceInit /\ [][TraceNext]_tvars

(* invariants of the reference machine, evaluated at every step of every    *)
(* real execution                                                           *)
TraceInv == TypeOK /\ UniqueIds /\ NoncesConsecutive /\ LedgerConserved

TraceAccepted ==
  LET d == TLCGet("stats").diameter IN
  IF d - 1 = Len(Rec) THEN TRUE
  ELSE Print(<<"REJECTED", d, IF d <= Len(Rec) THEN [ev |-> Rec[d].ev, res |-> Rec[d].res] ELSE "end">>, FALSE)
=============================================================================
