SPECIFICATION Spec
CONSTANTS
  W = 2
  NoVal = 0
  KeySet = {"a", "b"}
  Vals = {1}
  MaxH = 4
  HistFirst = TRUE
  OldLast = FALSE
INVARIANTS TypeOK ReadsRefineMap CommitInvisible VersionBound Recoverable
CHECK_DEADLOCK FALSE
