-------------------------------- MODULE Gas --------------------------------
(***************************************************************************)
(* C16 - gas allowance follows inscription size; estimates are sufficient. *)
(* A transaction of a program that does not inspect gas succeeds iff its   *)
(* allowance (length x GasPerByte, saturating) reaches an unknown          *)
(* threshold `need`; the machine below is that behaviour.  The monitor     *)
(* (lo, hi) is what trace validation maintains from OBSERVATIONS only: the *)
(* interval of thresholds consistent with everything seen.  TLC checks     *)
(* that the monitor is sound (never rejects the machine) and tight (a      *)
(* wrong outcome empties the interval); TraceGas.tla runs the same monitor *)
(* over executions of the real engine.                                     *)
(***************************************************************************)
EXTENDS Naturals, Integers, TLC

CONSTANTS GasPerByte, Inf, MaxNeed, Lens

VARIABLES need,    \* the hidden threshold of the current program
          lo, hi,  \* monitor: need is in lo..hi according to the observations
          est      \* last estimate (Inf: none yet)

vars == <<need, lo, hi, est>>

Limit(len) == IF len < 0 \/ len * GasPerByte > Inf THEN Inf ELSE len * GasPerByte
Min2(a, b) == IF a < b THEN a ELSE b
Max2(a, b) == IF a > b THEN a ELSE b
CeilDiv(a, b) == (a + b - 1) \div b

Init == need \in 0..MaxNeed /\ lo = 0 /\ hi = Inf /\ est = Inf

(* monitor updates, used by the machine below and by TraceGas *)
ObsSuccess(len) == hi' = Min2(hi, Limit(len)) /\ UNCHANGED lo
ObsOutOfGas(len) == lo' = Max2(lo, Limit(len) + 1) /\ UNCHANGED hi
ObsEstimate(e) == hi' = Min2(hi, e) /\ UNCHANGED lo

(* the machine: an attempt with allowance Limit(len) *)
Attempt(len) ==
  /\ IF need <= Limit(len) THEN ObsSuccess(len) ELSE ObsOutOfGas(len)
  /\ UNCHANGED <<need, est>>

(* the estimator returns some sufficient figure, within one byte's worth of the threshold or the 21000 floor *)
Estimate ==
  /\ \E e \in need..(need + GasPerByte) :
       /\ ObsEstimate(e)
       /\ est' = e
  /\ UNCHANGED need

Next == (\E len \in Lens : Attempt(len)) \/ Estimate

Spec == Init /\ [][Next]_vars

MonitorSound == lo <= need /\ need <= hi          \* hence lo <= hi: a correct machine is never rejected
EstimateSufficient == est < Inf => need <= Limit(CeilDiv(est, GasPerByte))
=============================================================================
