SPECIFICATION Spec
CONSTANTS
  W = 2
  Vals = {1, 2}
  Blocks = {0, 1, 2, 3, 4, 5, 6, 7}
  NoVal = 0
  DumpEdges = FALSE
VIEW View
INVARIANTS TypeOK LatestIsTruth RetainedIsTruth RollbackInWindow Bounded NeverSilentlyWrong
CHECK_DEADLOCK FALSE
