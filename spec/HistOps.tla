------------------------------ MODULE HistOps ------------------------------
(* Pure operators on one key's version history (block |-> value), shared by VersionedKey and VersionedTable. *)
(* They mirror BlockHistoryCacheData: new / latest / set+unset (Write) / reorg (Truncate) / is_old.           *)
EXTENDS Naturals, Integers, FiniteSets, FiniteSetsExt

CONSTANTS W,      \* MAX_REORG_HISTORY_SIZE
          NoVal   \* Option::None

Keys(h)   == DOMAIN h
MaxKey(h) == Max(Keys(h))
Latest(h) == h[MaxKey(h)]

Defined(h, n) == \E k \in Keys(h) : k <= n
ValueAt(h, n) == h[Max({k \in Keys(h) : k <= n})]

(* remove_old_values(latest): of the keys with key + W <= latest keep only the newest *)
Prune(h, latest) ==
  LET old == {k \in Keys(h) : k + W <= latest}
  IN  IF old = {} THEN h
      ELSE LET keep == (Keys(h) \ old) \cup {Max(old)}
           IN  [k \in keep |-> h[k]]

Put(h, b, v) == [k \in Keys(h) \cup {b} |-> IF k = b THEN v ELSE h[k]]

NewHist(v) == [k \in {0} |-> v]

(* set(b, v) / unset(b) (v = NoVal): equal-value dedup, insert, prune; the caller guarantees b >= MaxKey(h) *)
WriteHist(h, b, v) == IF Latest(h) = v THEN h ELSE Prune(Put(h, b, v), b)

(* reorg(n): the versions <= n (empty: the code panics) *)
Truncate(h, n) == [k \in {k \in Keys(h) : k <= n} |-> h[k]]

IsOld(h, b) == MaxKey(h) + W < b
=============================================================================
