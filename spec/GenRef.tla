------------------------------- MODULE GenRef -------------------------------
(***************************************************************************)
(* Schedule generator (spec -> impl): behaviours of Brc20Ref with the real *)
(* constants, explored by `tlc -simulate`; every behaviour is printed as   *)
(* one JSON schedule that the harness executes on the real engine.  The    *)
(* reference state is carried along so that the generator knows which      *)
(* tx_idx / hash / timestamp / nonce is right and which is wrong.          *)
(***************************************************************************)
EXTENDS Brc20Ref, Json

CONSTANTS Senders, Signers, MaxLen,
          Focus      \* "mixed" | "reorg" | "proto" | "pool" | "ledger" | "commit"

VARIABLES sched,   \* the schedule so far (sequence of harness steps)
          ctr      \* [h, i, x]: fresh block-hash / inscription / txid tokens

gvars == <<chain, cur, world, pool, snaps, maxEver, dur, sched, ctr>>

Sstore(s, v) == [op |-> "sstore", s |-> s, v |-> v]
Log(t)       == [op |-> "log", t |-> t]
Sub(ops)     == [op |-> "sub", ops |-> ops]
Op(name)     == [op |-> name]
Env(k, s)    == [op |-> "env", k |-> k, s |-> s]
Bh(back, s)  == [op |-> "bh", back |-> back, s |-> s]
CallExt(to, ops) == [op |-> "callext", to |-> to, ops |-> ops]

Progs == {
  <<Sstore(1, 1)>>,
  <<Sstore(1, 2), Log(<<1>>)>>,
  <<Sstore(1, 0)>>,
  <<Sstore(2, 1), Op("revert")>>,
  <<Sub(<<Sstore(1, 3), Op("revert")>>), Sstore(2, 2)>>,
  <<Sub(<<Sstore(3, 1)>>), Log(<<2, 1>>)>>,
  <<Op("create"), Log(<<1, 2, 3>>)>>,
  <<Log(<<>>), Log(<<1, 2, 3, 4>>), Sstore(2, 0)>>,
  <<Sstore(3, 2), Op("invalid")>>,
  <<Sstore(1, 1), Sstore(1, 1)>>,
  <<Env(1, 4), Env(8, 3)>>,
  <<Env(5, 2), Env(2, 1), Log(<<3>>)>>,
  <<>> }

Pick(seq) == seq[RandomElement(1..Len(seq))]

ReadProgs == {
  <<Bh(1, 4), Op("ret") @@ [s |-> 4]>>,
  <<Bh(3, 2), Bh(1, 3), Op("ret") @@ [s |-> 3]>>,
  <<Env(1, 4), Op("ret") @@ [s |-> 4]>>,
  <<Env(5, 4), Env(3, 1), Op("ret") @@ [s |-> 4]>>,
  <<Env(8, 2), Env(4, 3), Env(6, 1), Env(7, 4), Op("ret") @@ [s |-> 2]>>,
  <<[op |-> "number", s |-> 4], Op("ret") @@ [s |-> 4]>>,
  <<[op |-> "number", s |-> 4], Sstore(1, 6)>>,
  <<Sstore(1, 9), Op("ret") @@ [s |-> 1]>>,
  <<Op("ret") @@ [s |-> 1]>>,
  <<Op("ret") @@ [s |-> 2]>>,
  <<Sstore(2, 7), Op("create"), Log(<<5>>), Op("selfdestruct")>>,
  <<Sub(<<Sstore(3, 3)>>), Op("ret") @@ [s |-> 3]>> }

LogProgs == {
  <<Log(<<>>)>>, <<Log(<<1>>)>>, <<Log(<<2>>), Log(<<1, 2>>)>>, <<Log(<<1, 1>>), Log(<<2, 1, 2>>)>>,
  <<Log(<<1, 2, 1>>), Log(<<2, 2, 2, 1>>)>>, <<Log(<<3>>), Log(<<1, 3>>), Log(<<2>>)>>, <<Log(<<2, 1>>), Op("revert")>>,
  <<Log(<<1, 2, 1, 2>>)>>, <<Sub(<<Log(<<2, 2>>)>>), Log(<<1>>)>> }

NoLc == [fn |-> "none"]

HTok(n) == "h" \o ToString(n)
ITok(n) == "i" \o ToString(n)
XTok(n) == "x" \o ToString(n)
TTok(n) == "t" \o ToString(n)          \* generator-side identity only

Tx(kind, from, to, ckind, ops, lc, gas) ==
  [kind |-> kind, from |-> from, to |-> to, ckind |-> ckind, ops |-> ops, lc |-> lc, gas |-> gas, txid |-> XTok(ctr.x)]

CurHash == IF cur.n > 0 THEN cur.hash ELSE HTok(ctr.h)
CurTs   == IF cur.n > 0 THEN cur.ts ELSE 100 + NextH
Cells   == {a \in DOMAIN world.code : world.code[a] = "cell"}
Probes  == {a \in DOMAIN world.code : world.code[a] = "probe"}

Push(step) == sched' = Append(sched, step)
Bump(f) == ctr' = [ctr EXCEPT ![f] = @ + 1]
Bump2(f, g) == ctr' = [ctr EXCEPT ![f] = @ + 1, ![g] = @ + 1]

NoSeen == [status |-> 1, logs |-> <<>>, created |-> NULL]
(* the receipt the machine predicts (generator side) *)
PredSeen(tx) ==
  LET o == Outcome(world, tx, NoSeen)
  IN  [status |-> o.status, logs |-> o.logs, created |-> o.created]

Started == Len(chain) > 0

-----------------------------------------------------------------------------
GInit ==
  /\ ~Started /\ cur.n = 0
  /\ \E hz \in {RandomElement({"tok", "zero"})} :
       LET h == IF hz = "zero" THEN "zero" ELSE HTok(ctr.h) IN
       /\ InitialiseOk(TTok(ctr.x), h, 100, Base, <<>>)
       /\ Push([op |-> "init", hash |-> h, ts |-> 100, height |-> Base])
  /\ Bump2("h", "x")

GMine ==
  /\ cur.n = 0
  /\ \E k \in {Pick(<<1, 1, 2, 3, 11>>)} :
       /\ MineOk(k, 100 + NextH)
       /\ Push([op |-> "mine", k |-> k, ts |-> 100 + NextH])
  /\ UNCHANGED ctr

GAdd(via, tx, extra) ==
  /\ Started
  /\ AddTx(TTok(ctr.x), tx, ITok(ctr.i), cur.n, CurHash, CurTs, PredSeen(tx))
  /\ Push([op |-> "tx", via |-> via, from |-> tx.from, to |-> tx.to, ckind |-> tx.ckind, ops |-> tx.ops,
           lc |-> tx.lc, insc |-> ITok(ctr.i), idx |-> cur.n, hash |-> CurHash, ts |-> CurTs,
           gas |-> tx.gas, txid |-> XTok(ctr.x), enc |-> extra])
  /\ ctr' = [ctr EXCEPT !.i = @ + 1, !.x = @ + 1, !.h = IF cur.n = 0 THEN @ + 1 ELSE @]

GDeploy ==
  \E from \in {RandomElement(Senders)}, ck \in {Pick(<<"cell", "cell", "bad">>)}, enc \in {RandomElement({"hex", "b64"})} :
    GAdd("deploy", Tx("create", from, NULL, ck, <<>>, NoLc, "ample"), enc)

GCall ==
  \E from \in {RandomElement(Senders)}, to \in {RandomElement(Cells \cup {"dead"})}, ops \in {RandomElement(Progs)}, g \in {Pick(<<"ample", "ample", "ample", "ample", "ample", "ample", "ample", "ample", "ample", "ample", "ample", "tiny">>)}, enc \in {RandomElement({"hex", "b64"})} :
    GAdd("call", Tx("call", from, to, NULL, ops, NoLc, g), enc)

GLedger ==
  /\ Started /\ Code(world, "ctrl") = "ctrl"
  /\ \E via \in {Pick(<<"deposit", "deposit", "withdraw">>)}, holder \in {RandomElement(Senders)}, spell \in {RandomElement({"ordi", "OrDi", "sats", "U:ETH", "u:eth"})}, amt \in {RandomElement({0, 1, 2, 5, MAXV - 1, MAXV})} :
       LET tk == IF spell = "sats" THEN "sats" ELSE IF spell \in {"U:ETH", "u:eth"} THEN "u:eth" ELSE "ordi"
           lc == [fn |-> IF via = "deposit" THEN "mint" ELSE "burn", on |-> "ctrl", tk |-> tk, spell |-> spell,
                  a |-> holder, b |-> "zero", v |-> amt]
           tx == Tx("call", "idx", "ctrl", NULL, <<>>, lc, "ample")
       IN  /\ AddTx(TTok(ctr.x), tx, ITok(ctr.i), cur.n, CurHash, CurTs, PredSeen(tx))
           /\ Push([op |-> "tx", via |-> via, holder |-> holder, ticker |-> spell, tk |-> tk, amt |-> amt,
                    insc |-> ITok(ctr.i), idx |-> cur.n, hash |-> CurHash, ts |-> CurTs])
  /\ ctr' = [ctr EXCEPT !.i = @ + 1, !.x = @ + 1, !.h = IF cur.n = 0 THEN @ + 1 ELSE @]

(* user-initiated ledger calls: the generator guesses the status (token-level transfers with     *)
(* enough balance succeed, everything else fails); validation uses the real receipt              *)
GUserLedger ==
  /\ Started /\ DOMAIN world.tok # {}
  /\ \E from \in {RandomElement(Senders)}, to \in {RandomElement(Senders \cup {"zero"})}, tk \in {RandomElement(DOMAIN world.tok)}, fn \in {Pick(<<"transfer", "transfer", "approve", "transferFrom", "mint", "burn">>)}, on \in {RandomElement({"ctrl", "tok"})}, v \in {RandomElement({0, 1, 2, 7})} :
       LET lc == [fn |-> fn, on |-> on, tk |-> tk, spell |-> tk, a |-> to, b |-> from, v |-> v]
           target == IF on = "ctrl" THEN "ctrl" ELSE world.tok[tk]
           tx == Tx("call", from, target, NULL, <<>>, lc, "ample")
           st == IF fn = "transfer" /\ on = "tok" /\ to # "zero" /\ Bal(world, tk, from) >= v THEN 1
                 ELSE IF fn = "approve" /\ to # "zero" THEN 1 ELSE 0
       IN  /\ AddTx(TTok(ctr.x), tx, ITok(ctr.i), cur.n, CurHash, CurTs, [status |-> st, logs |-> <<>>, created |-> NULL])
           /\ Push([op |-> "tx", via |-> "call", from |-> from, to |-> target, ckind |-> NULL, ops |-> <<>>,
                    lc |-> lc, insc |-> ITok(ctr.i), idx |-> cur.n, hash |-> CurHash, ts |-> CurTs,
                    gas |-> "ample", txid |-> XTok(ctr.x), enc |-> "hex"])
  /\ ctr' = [ctr EXCEPT !.i = @ + 1, !.x = @ + 1, !.h = IF cur.n = 0 THEN @ + 1 ELSE @]

TransactStep(tx, nonce, ch) ==
  [op |-> "transact", signer |-> tx.from, nonce |-> nonce, to |-> tx.to, ckind |-> tx.ckind, ops |-> tx.ops,
   chain |-> ch, insc |-> ITok(ctr.i), idx |-> cur.n, hash |-> CurHash, ts |-> CurTs, txid |-> XTok(ctr.x),
   gas |-> "ample", enc |-> "hex"]

RECURSIVE PredSeens(_, _, _, _)
PredSeens(w, p, signer, ns) ==
  IF ns = <<>> THEN <<>>
  ELSE LET e == p[<<signer, Head(ns)>>]
           o == Outcome(w, e.tx, NoSeen)
       IN  <<[status |-> o.status, logs |-> o.logs, created |-> o.created]>> \o PredSeens(o.world, p, signer, Tail(ns))

GTransact ==
  /\ Started
  /\ \E s \in {RandomElement(Signers)}, d \in {Pick(<<0, 0, 0, 1, 1, 2, 3, 9, 10, 11>>)}, back \in {Pick(<<0, 0, 0, 1>>)}, to \in {RandomElement(Cells \cup {"dead"})}, ops \in {RandomElement(Progs)}, ch \in {Pick(<<"own", "own", "own", "own", "own", "foreign", "garbage", "none">>)} :
       LET an == Nonce(world, s)
           nonce == IF back = 1 /\ an > 0 THEN an - 1 ELSE an + d
           tx == Tx("call", s, to, NULL, ops, NoLc, "ample")
           id == TTok(ctr.x)
       IN  /\ Push(TransactStep(tx, nonce, ch))
           /\ IF ch # "own" \/ nonce < an \/ nonce >= an + NonceWin
              THEN TransactIgnore
              ELSE IF nonce > an
              THEN TransactPark(id, tx, ITok(ctr.i), nonce, XTok(ctr.x))
              ELSE LET o0 == Outcome(world, tx, NoSeen)
                       ns == DrainSeq(pool, s, an + 1)
                       seens == <<[status |-> o0.status, logs |-> o0.logs, created |-> o0.created]>>
                                  \o PredSeens(o0.world, pool, s, ns)
                       drained == [k \in (DOMAIN pool) \ {<<s, n>> : n \in {ns[j] : j \in DOMAIN ns}} |-> pool[k]]
                       nx == an + 1 + Len(ns)
                       pnew == [k \in (DOMAIN drained) \ {<<s, nx>>} |-> drained[k]]
                   IN  TransactExec(id, tx, ITok(ctr.i), cur.n, CurHash, CurTs, seens, pnew)
  /\ ctr' = [ctr EXCEPT !.i = @ + 1, !.x = @ + 1,
                        !.h = IF cur.n = 0 /\ cur'.n > 0 THEN @ + 1 ELSE @]

(* reads at a block boundary: state-mutating programs through eth_call / eth_callMany / eth_estimateGas (C10, C17) *)
ReadTx(from, to, ops) == Tx("call", from, to, NULL, ops, NoLc, "ample")
ReadStep(op, tx) == [op |-> op, from |-> tx.from, to |-> tx.to, ckind |-> tx.ckind, ops |-> tx.ops, lc |-> tx.lc]
ReadStepAt(op, tx, b) == ReadStep(op, tx) @@ [block |-> b]

GEthCall ==
  /\ Started /\ cur.n = 0
  /\ \E from \in {RandomElement(Senders \cup Signers)}, to \in {RandomElement(Cells \cup {"dead"})}, ops \in {RandomElement(Progs \cup ReadProgs)}, op \in {Pick(<<"ethcall", "ethcall", "estimate">>)} :
       Push(ReadStep(op, ReadTx(from, to, ops)))
  /\ UNCHANGED <<chain, cur, world, pool, snaps, maxEver, dur, ctr>>

(* call data that costs more than the execution: the estimate's bisection then probes gas limits below the intrinsic cost *)
LongProg == [i \in 1..180 |-> Sstore(1, 1)]
GEstimateLong ==
  /\ Started /\ cur.n = 0
  /\ \E from \in {RandomElement(Senders)}, op \in {Pick(<<"estimate", "estimate", "ethcall">>)} :
       Push(ReadStep(op, ReadTx(from, "dead", LongProg)))
  /\ UNCHANGED <<chain, cur, world, pool, snaps, maxEver, dur, ctr>>

(* a simulation with an explicit block number: past, the tip, and heights that do not exist yet *)
GEthCallAt ==
  /\ Started /\ cur.n = 0 /\ Cells # {}
  /\ \E from \in {RandomElement(Senders)}, to \in {RandomElement(Cells)}, ops \in {RandomElement(ReadProgs)},
        b \in {Pick(<<NextH + 1, NextH + 1, NextH + 2, NextH + 6, NextH, Height, IF Height > Base THEN Height - 1 ELSE Height>>)} :
       Push(ReadStepAt("ethcall", ReadTx(from, to, ops), b))
  /\ UNCHANGED <<chain, cur, world, pool, snaps, maxEver, dur, ctr>>

(* a multi-call that creates a contract and then calls it from the same sender (the simulation keeps its own nonce count) *)
GCallManyCreate ==
  /\ Started /\ cur.n = 0
  /\ \E from \in {RandomElement(Senders)}, o1 \in {RandomElement(Progs)}, o2 \in {RandomElement(ReadProgs)}, est \in {Pick(<<FALSE, FALSE, TRUE>>)} :
       LET child == CreateAddr(from, Nonce(world, from)) IN
       Push([op |-> "callmany", estimate |-> est,
             calls |-> <<ReadStep("c", Tx("create", from, NULL, "cell", <<>>, NoLc, "ample")), ReadStep("c", ReadTx(from, child, o1)),
                         ReadStep("c", ReadTx(from, child, o2))>>])
  /\ UNCHANGED <<chain, cur, world, pool, snaps, maxEver, dur, ctr>>

GEthCallCreate ==
  /\ Started /\ cur.n = 0
  /\ \E from \in {RandomElement(Senders)}, ck \in {RandomElement({"cell", "bad", "big"})} :
       Push(ReadStep("ethcall", Tx("create", from, NULL, ck, <<>>, NoLc, "ample")))
  /\ UNCHANGED <<chain, cur, world, pool, snaps, maxEver, dur, ctr>>

(* a multi-call whose middle element is rejected by the EVM itself (sender with code) after an earlier element wrote state *)
GCallManyErr ==
  /\ Started /\ cur.n = 0 /\ Cells # {}
  /\ \E from \in {RandomElement(Senders)}, to \in {RandomElement(Cells)}, bad \in {RandomElement(Cells)}, o1 \in {RandomElement(Progs)}, est \in {Pick(<<FALSE, FALSE, TRUE>>)} :
       Push([op |-> "callmany", estimate |-> est,
             calls |-> <<ReadStep("c", ReadTx(from, to, <<Sstore(4, 4), Op("create")>>)), ReadStep("c", ReadTx(from, to, o1)),
                         ReadStep("c", ReadTx(bad, to, <<Sstore(4, 5)>>)), ReadStep("c", ReadTx(from, to, o1))>>])
  /\ UNCHANGED <<chain, cur, world, pool, snaps, maxEver, dur, ctr>>

GCallMany ==
  /\ Started /\ cur.n = 0 /\ Cells # {}
  /\ \E from \in {RandomElement(Senders)}, to \in {RandomElement(Cells)}, o1 \in {RandomElement(Progs)}, o2 \in {RandomElement(ReadProgs)}, o3 \in {RandomElement(Progs \cup ReadProgs)}, est \in {Pick(<<FALSE, FALSE, TRUE>>)} :
       Push([op |-> "callmany", estimate |-> est,
             calls |-> <<ReadStep("c", ReadTx(from, to, o1)), ReadStep("c", ReadTx(from, to, o2)), ReadStep("c", ReadTx(from, to, o3))>>])
  /\ UNCHANGED <<chain, cur, world, pool, snaps, maxEver, dur, ctr>>

(* eth_call immediately followed by the same transaction (C17) *)
GPredicted ==
  /\ Started /\ cur.n = 0
  /\ \E from \in {RandomElement(Senders)}, to \in {RandomElement(Cells \cup {"dead"})}, ops \in {RandomElement(Progs \cup ReadProgs)}, cr \in {Pick(<<0, 0, 1>>)},
        ck \in {Pick(<<"cell", "big">>)} :    \* "big": runtime code one byte over EIP-170's 24576 (the engine lifts that limit)
       LET tx == IF cr = 1 THEN Tx("create", from, NULL, ck, <<>>, NoLc, "ample") ELSE ReadTx(from, to, ops)
       IN  /\ AddTx(TTok(ctr.x), tx, ITok(ctr.i), cur.n, CurHash, CurTs, PredSeen(tx))
           /\ sched' = sched \o <<ReadStep("ethcall", tx),
                                  [op |-> "tx", via |-> IF cr = 1 THEN "deploy" ELSE "call", from |-> tx.from, to |-> tx.to, ckind |-> tx.ckind,
                                   ops |-> tx.ops, lc |-> tx.lc, insc |-> ITok(ctr.i), idx |-> cur.n, hash |-> CurHash, ts |-> CurTs,
                                   gas |-> "ample", txid |-> XTok(ctr.x), enc |-> "hex"]>>
  /\ ctr' = [ctr EXCEPT !.i = @ + 1, !.x = @ + 1, !.h = IF cur.n = 0 THEN @ + 1 ELSE @]

GLogCall ==
  \E from \in {RandomElement(Senders)}, to \in {RandomElement(Cells)}, ops \in {RandomElement(LogProgs)} :
    GAdd("call", Tx("call", from, to, NULL, ops, NoLc, "ample"), "hex")

(* logs of two emitters in one receipt: the called Cell logs, calls ANOTHER Cell that logs, and logs again (and the reverse   *)
(* order); also a callee that reverts (its logs vanish) and a storage write in the callee                                   *)
GLogCall2 ==
  /\ Cardinality(Cells) >= 2
  /\ \E from \in {RandomElement(Senders)}, to \in {RandomElement(Cells)} :
       \E other \in {RandomElement(Cells \ {to})}, shape \in {Pick(<<1, 1, 2, 3, 4>>)} :
         LET ops == CASE shape = 1 -> <<Log(<<1>>), CallExt(other, <<Log(<<2>>), Log(<<1, 2>>)>>), Log(<<1, 1>>)>>
                      [] shape = 2 -> <<CallExt(other, <<Log(<<1>>)>>), Log(<<1>>), Log(<<2, 1>>)>>
                      [] shape = 3 -> <<Log(<<2>>), CallExt(other, <<Log(<<1>>), Op("revert")>>), CallExt(other, <<Sstore(2, 3), Log(<<3>>)>>)>>
                      [] OTHER -> <<CallExt(other, <<CallExt(to, <<Log(<<1, 2, 3>>)>>), Log(<<1>>)>>), Log(<<2>>)>>
         IN  GAdd("call", Tx("call", from, to, NULL, ops, NoLc, "ample"), "hex")

GDeployProbe ==
  /\ Cardinality(Probes) < 2
  /\ \E from \in {RandomElement(Senders)} : GAdd("deploy", Tx("create", from, NULL, "probe", <<>>, NoLc, "ample"), "hex")

GProbeCall ==
  /\ Probes # {}
  /\ \E from \in {RandomElement(Senders)}, to \in {RandomElement(Probes)} :
       GAdd("call", Tx("call", from, to, NULL, <<>>, NoLc, "ample"), "hex")

GProbeTransact ==
  /\ Started /\ Probes # {}
  /\ \E s \in {RandomElement(Signers)}, d \in {Pick(<<0, 0, 1, 1, 2>>)}, to \in {RandomElement(Probes)} :
       LET an == Nonce(world, s)
           nonce == an + d
           tx == Tx("call", s, to, NULL, <<>>, NoLc, "ample")
           id == TTok(ctr.x)
       IN  /\ Push(TransactStep(tx, nonce, "own"))
           /\ IF nonce > an
              THEN TransactPark(id, tx, ITok(ctr.i), nonce, XTok(ctr.x))
              ELSE LET o0 == Outcome(world, tx, NoSeen)
                       ns == DrainSeq(pool, s, an + 1)
                       seens == <<[status |-> 1, logs |-> <<>>, created |-> NULL]>> \o PredSeens(o0.world, pool, s, ns)
                       drained == [k \in (DOMAIN pool) \ {<<s, n>> : n \in {ns[j] : j \in DOMAIN ns}} |-> pool[k]]
                       nx == an + 1 + Len(ns)
                       pnew == [k \in (DOMAIN drained) \ {<<s, nx>>} |-> drained[k]]
                   IN  TransactExec(id, tx, ITok(ctr.i), cur.n, CurHash, CurTs, seens, pnew)
  /\ ctr' = [ctr EXCEPT !.i = @ + 1, !.x = @ + 1,
                        !.h = IF cur.n = 0 /\ cur'.n > 0 THEN @ + 1 ELSE @]

GMineFar ==
  /\ cur.n = 0
  /\ \E k \in {Pick(<<2, 9, 250, 255>>)} :
       /\ MineOk(k, 100 + NextH)
       /\ Push([op |-> "mine", k |-> k, ts |-> 100 + NextH])
  /\ UNCHANGED ctr

GDeployCell ==
  /\ Cardinality(Cells) < 2
  /\ \E from \in {RandomElement(Senders)} : GAdd("deploy", Tx("create", from, NULL, "cell", <<>>, NoLc, "ample"), "hex")

GFinalise ==
  /\ Started
  /\ FinaliseOk(CurTs, CurHash, cur.n)
  /\ Push([op |-> "finalise", ts |-> CurTs, hash |-> CurHash, count |-> cur.n])
  /\ ctr' = [ctr EXCEPT !.h = IF cur.n = 0 THEN @ + 1 ELSE @]

GCommit  == cur.n = 0 /\ Started /\ CommitOk /\ Push([op |-> "commit"]) /\ UNCHANGED ctr
GClear   == Started /\ FallBack /\ Push([op |-> "clear"]) /\ UNCHANGED ctr
GRestart == Started /\ FallBack /\ Push([op |-> "restart"]) /\ UNCHANGED ctr

GReorg ==
  /\ Started /\ cur.n = 0
  /\ \E n \in {RandomElement({m \in (Height - 12)..(Height + 1) : m >= Base})} :
       /\ IF ReorgAcceptable(n) THEN ReorgOk(n) ELSE Reject
       /\ Push([op |-> "reorg", n |-> n])
  /\ UNCHANGED ctr

(* out-of-protocol calls: all must be rejected without effect (C05) *)
GBad ==
  /\ Started
  /\ \E kind \in {RandomElement({"idx", "ts", "hash", "oldhash", "count", "commit", "reorg", "mine", "both", "none", "finhash", "inith", "inith"})} :
       LET tx == Tx("call", CHOOSE s \in Senders : TRUE, "dead", NULL, <<Sstore(1, 1)>>, NoLc, "ample")
           base == [op |-> "tx", via |-> "call", from |-> tx.from, to |-> "dead", ckind |-> NULL, ops |-> tx.ops,
                    lc |-> NoLc, insc |-> ITok(ctr.i), idx |-> cur.n, hash |-> CurHash, ts |-> CurTs,
                    gas |-> "ample", txid |-> XTok(ctr.x), enc |-> "hex"]
       IN  CASE kind = "idx" -> Push([base EXCEPT !.idx = cur.n + 1])
             [] kind = "ts" -> cur.n > 0 /\ Push([base EXCEPT !.ts = cur.ts + 1])
             [] kind = "hash" -> cur.n > 0 /\ Push([base EXCEPT !.hash = HTok(ctr.h)])
             [] kind = "oldhash" -> Height >= 1 /\ cur.n = 0 /\ Push([base EXCEPT !.hash = chain[Height + 1].hash])
             [] kind = "count" -> Push([op |-> "finalise", ts |-> CurTs, hash |-> CurHash, count |-> cur.n + 1])
             [] kind = "finhash" -> cur.n > 0 /\ Push([op |-> "finalise", ts |-> CurTs, hash |-> HTok(ctr.h), count |-> cur.n])
             [] kind = "commit" -> cur.n > 0 /\ Push([op |-> "commit"])
             [] kind = "reorg" -> cur.n > 0 /\ Height >= Base + 1 /\ Push([op |-> "reorg", n |-> Height - 1])
             [] kind = "mine" -> cur.n > 0 /\ Push([op |-> "mine", k |-> 1, ts |-> CurTs])
             [] kind = "both" -> Push([base EXCEPT !.enc = "both"])
             [] kind = "none" -> Push([base EXCEPT !.enc = "none"])
             [] kind = "inith" -> cur.n = 0 /\ Push([op |-> "init", hash |-> HTok(ctr.h), ts |-> CurTs, height |-> NextH + 2])
  /\ Reject
  /\ Bump("i")

-----------------------------------------------------------------------------
Weighted ==
  CASE Focus = "reorg"  -> GCall \/ GCall \/ GDeploy \/ GFinalise \/ GFinalise \/ GMine \/ GMine \/ GCommit \/ GReorg \/ GReorg \/ GReorg \/ GTransact \/ GLedger
                             \/ GRestart \/ GClear
    [] Focus = "proto"  -> GCall \/ GDeploy \/ GFinalise \/ GBad \/ GBad \/ GTransact \/ GLedger \/ GMine
    [] Focus = "pool"   -> GTransact \/ GTransact \/ GTransact \/ GFinalise \/ GFinalise \/ GMine \/ GCall \/ GReorg \/ GClear
    [] Focus = "ledger" -> GLedger \/ GLedger \/ GUserLedger \/ GUserLedger \/ GFinalise \/ GReorg \/ GCommit \/ GCall
    [] Focus = "reads"  -> GEthCall \/ GEthCall \/ GEthCallAt \/ GEthCallCreate \/ GEstimateLong \/ GCallMany \/ GCallManyErr \/ GCallManyCreate \/ GPredicted \/ GPredicted \/ GCall \/ GDeploy \/ GFinalise \/ GFinalise
                             \/ GCommit \/ GReorg \/ GTransact \/ GLedger
    [] Focus = "logs"   -> IF Cardinality(Cells) < 2 THEN (GDeployCell \/ GFinalise)
                           ELSE (GLogCall \/ GLogCall \/ GLogCall2 \/ GLogCall2 \/ GFinalise \/ GFinalise \/ GCommit)
    [] Focus = "logsnc" -> IF Cardinality(Cells) < 2 THEN (GDeployCell \/ GFinalise)
                           ELSE (GLogCall \/ GLogCall \/ GLogCall2 \/ GLogCall2 \/ GFinalise \/ GFinalise)
    [] Focus = "probe"  -> IF Probes = {} THEN (GDeployProbe \/ GFinalise)
                           ELSE (GProbeCall \/ GProbeCall \/ GProbeTransact \/ GProbeTransact \/ GFinalise \/ GFinalise \/ GMine \/ GMineFar
                                  \/ GReorg \/ GRestart \/ GCommit \/ GLedger \/ GDeployProbe)
    [] Focus = "crash"  -> GCall \/ GCall \/ GDeploy \/ GLedger \/ GTransact \/ GFinalise \/ GFinalise \/ GFinalise \/ GCommit \/ GCommit \/ GReorg \/ GMine
    [] Focus = "commit" -> GCall \/ GDeploy \/ GFinalise \/ GFinalise \/ GCommit \/ GClear \/ GRestart \/ GTransact \/ GLedger \/ GMine
    [] OTHER -> GDeploy \/ GCall \/ GCall \/ GLogCall2 \/ GLedger \/ GUserLedger \/ GTransact \/ GFinalise \/ GFinalise \/ GMine
                 \/ GCommit \/ GClear \/ GRestart \/ GReorg \/ GBad

GDone ==
  /\ PrintT(<<"SCHED", ToJson(sched)>>)
  /\ ctr' = [ctr EXCEPT !.d = 1]
  /\ UNCHANGED <<chain, cur, world, pool, snaps, maxEver, dur, sched>>

GNext ==
  /\ ctr.d = 0
  /\ IF Len(sched) < MaxLen THEN (GInit \/ (Started /\ Weighted)) ELSE GDone

GInitState ==
  /\ Init
  /\ sched = <<>>
  /\ ctr = [h |-> 1, i |-> 1, x |-> 1, d |-> 0]

GSpec == GInitState /\ [][GNext]_gvars

GenInv == TypeOK /\ UniqueIds /\ NoncesConsecutive /\ LedgerConserved /\ BoundaryIsSnap
=============================================================================
