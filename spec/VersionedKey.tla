--------------------------- MODULE VersionedKey ---------------------------
(* One key's version history: src/db/cached_database/block_history_cache.rs  *)
(* (BlockHistoryCacheData / trait BlockHistoryCache).                        *)
(*                                                                           *)
(* hist   : the retained versions, block |-> value (NoVal = Option::None)    *)
(* truth  : ghost - value the key had at the end of every block (never       *)
(*          pruned); what a plain map with per-block snapshots remembers     *)
(* cur    : block of the newest write / current block of the table           *)
(* hi     : highest block ever written (the window is relative to it)        *)
(* lastOp : label of the last action, only used to print edges (VIEW-hidden) *)
EXTENDS HistOps, Sequences, SequencesExt, TLC, Json

CONSTANTS Vals,     \* the value alphabet (small positive integers)
          Blocks,   \* the block numbers a run may use (includes 0)
          DumpEdges \* TRUE: print one JSON line per transition

VARIABLES hist, truth, cur, hi, lastOp

vars == <<hist, truth, cur, hi, lastOp>>
View == <<hist, truth, cur, hi>>

MaxB == Max(Blocks)
Opt  == Vals \cup {NoVal}



(* the successor WITHOUT pruning: the semantics a straightforward map has *)
SemWrite(h, b, v) == Put(h, b, v)

TypeOK ==
  /\ Keys(hist) \subseteq Blocks /\ Keys(hist) # {}
  /\ \A k \in Keys(hist) : hist[k] \in Opt
  /\ cur \in Blocks /\ hi \in Blocks

Init ==
  \E v \in Opt :
    /\ hist = [k \in {0} |-> v]
    /\ truth = [n \in 0..MaxB |-> v]
    /\ cur = 0 /\ hi = 0
    /\ lastOp = [op |-> "new", v |-> v, b |-> 0, panic |-> FALSE]

(* set(block, value) / unset(block): value = NoVal is unset.                 *)
(* phase 1: the monotone-block guard (panics below the newest stored block)  *)
(* phase 2: equal-value dedup                                                *)
(* phase 3: insert + remove_old_values                                       *)
Write(b, v) ==
  /\ b >= cur                           \* the table only writes at its next height
  /\ b >= MaxKey(hist)                  \* (otherwise the code panics: see WritePanics)
  /\ hist' = IF Latest(hist) = v THEN hist
             ELSE Prune(Put(hist, b, v), b)
  /\ truth' = [n \in 0..MaxB |-> IF n >= b THEN v ELSE truth[n]]
  /\ cur' = b
  /\ hi' = IF b > hi THEN b ELSE hi
  /\ lastOp' = [op |-> "write", v |-> v, b |-> b, panic |-> FALSE]

(* a write below the newest stored block is refused by a panic; nothing changes *)
WritePanics(b, v) ==
  /\ b < MaxKey(hist)
  /\ UNCHANGED <<hist, truth, cur, hi>>
  /\ lastOp' = [op |-> "write", v |-> v, b |-> b, panic |-> TRUE]

(* the block advances without a write to this key *)
Advance(b) ==
  /\ b > cur
  /\ cur' = b
  /\ hi' = IF b > hi THEN b ELSE hi
  /\ UNCHANGED <<hist, truth>>
  /\ lastOp' = [op |-> "advance", v |-> NoVal, b |-> b, panic |-> FALSE]

(* reorg(n): keep the versions <= n; panics (state is garbage) when none is left.   *)
(* The database only calls it for n <= cur and n + W >= hi; the deeper case is       *)
(* modelled by ReorgDeep so that NeverSilentlyWrong covers it.                       *)
Reorg(n) ==
  /\ n <= cur /\ n + W >= hi
  /\ Defined(hist, n)
  /\ hist' = [k \in {k \in Keys(hist) : k <= n} |-> hist[k]]
  /\ truth' = [x \in 0..MaxB |-> IF x > n THEN truth[n] ELSE truth[x]]
  /\ cur' = n
  /\ UNCHANGED hi
  /\ lastOp' = [op |-> "reorg", v |-> NoVal, b |-> n, panic |-> FALSE]

ReorgDeep(n) ==
  /\ n <= cur /\ n + W < hi
  /\ UNCHANGED <<hist, truth, cur, hi>>     \* observation only, see NeverSilentlyWrong
  /\ lastOp' = [op |-> "reorgdeep", v |-> NoVal, b |-> n, panic |-> ~Defined(hist, n)]

Next ==
  \/ \E b \in Blocks, v \in Opt : Write(b, v) \/ WritePanics(b, v)
  \/ \E b \in Blocks : Advance(b)
  \/ \E n \in Blocks : Reorg(n) \/ ReorgDeep(n)

Spec == Init /\ [][Next]_vars

-----------------------------------------------------------------------------
(* Properties (C13, and the per-key part of C01)                             *)

LatestIsTruth == Latest(hist) = truth[cur]

(* every retained version is the truth from its block on: nothing the        *)
(* history can answer is wrong                                               *)
RetainedIsTruth == \A n \in 0..cur : Defined(hist, n) => ValueAt(hist, n) = truth[n]

(* every block inside the window can be answered                             *)
RollbackInWindow == \A n \in 0..cur : n + W >= hi => Defined(hist, n)

(* at most W+1 versions *)
Bounded == Cardinality(Keys(hist)) <= W + 1

(* deeper rollbacks panic or give the true value - a consequence of          *)
(* RetainedIsTruth, stated for the reader                                    *)
NeverSilentlyWrong ==
  \A n \in 0..cur : n + W < hi => (~Defined(hist, n) \/ ValueAt(hist, n) = truth[n])

(* is_old(b) is exactly "newest version more than W below b" *)

-----------------------------------------------------------------------------
(* Edge printing for per-transition conformance.  For each transition        *)
(* s --a--> t one line: the source history, the action, the expected         *)
(* answers of t for every block (computed from the UNPRUNED successor, so    *)
(* the expectation does not depend on the pruning policy) and the window.    *)

HistSeq(h) == LET ks == SetToSortSeq(Keys(h), <)
              IN  [i \in 1..Len(ks) |-> <<ks[i], h[ks[i]]>>]

(* The data type's functions on ANY history (a superset of the reachable     *)
(* ones: no cur/hi guards), one state per distinct history.                  *)
EWrite(b, v) ==
  /\ b >= MaxKey(hist)
  /\ hist' = IF Latest(hist) = v THEN hist ELSE Prune(Put(hist, b, v), b)
  /\ lastOp' = [op |-> "write", v |-> v, b |-> b, panic |-> FALSE]
EWritePanics(b, v) ==
  /\ b < MaxKey(hist)
  /\ UNCHANGED hist
  /\ lastOp' = [op |-> "write", v |-> v, b |-> b, panic |-> TRUE]
EReorg(n) ==
  /\ Defined(hist, n)
  /\ hist' = [k \in {k \in Keys(hist) : k <= n} |-> hist[k]]
  /\ lastOp' = [op |-> "reorg", v |-> NoVal, b |-> n, panic |-> FALSE]
EReorgPanics(n) ==
  /\ ~Defined(hist, n)
  /\ UNCHANGED hist
  /\ lastOp' = [op |-> "reorg", v |-> NoVal, b |-> n, panic |-> TRUE]
EIsOld(b) ==
  /\ UNCHANGED hist
  /\ lastOp' = [op |-> "isold", v |-> (IF IsOld(hist, b) THEN 1 ELSE 0), b |-> b, panic |-> FALSE]

ENext ==
  /\ UNCHANGED <<truth, cur, hi>>
  /\ \/ \E b \in Blocks, v \in Opt : EWrite(b, v) \/ EWritePanics(b, v)
     \/ \E n \in Blocks : EReorg(n) \/ EReorgPanics(n) \/ EIsOld(n)

ESpec == Init /\ [][ENext]_vars
EdgeView == hist

(* Edges_VK_full.cfg: dense block numbers, only the histories without a block        *)
(* that has no version between their oldest and newest version - the ones        *)
(* that fill the window (W + 1 versions), which the sparse block set of          *)
(* Edges_VK_10 cannot produce.  Every set / unset / rollback / is_old on a full  *)
(* history is then a transition (a removal as the W+2nd version among them).     *)
DenseHist == (MaxKey(hist) - Min(Keys(hist)) + 1) = Cardinality(Keys(hist))

Unpruned(h, a) ==
  IF a.op = "write" /\ ~a.panic THEN (IF Latest(h) = a.v THEN h ELSE SemWrite(h, a.b, a.v))
  ELSE IF a.op = "reorg" /\ ~a.panic THEN [k \in {k \in Keys(h) : k <= a.b} |-> h[k]]
  ELSE h

(* expected answers of the successor for every block n: the value a plain    *)
(* map would give (from the UNPRUNED successor; -1 = unknown to the source   *)
(* history), and whether the model's own (pruned) successor can answer n     *)
Expect(h, a, hpost) ==
  LET u == Unpruned(h, a)
  IN  [v |-> [i \in 1..(MaxB + 2) |-> IF Defined(u, i - 1) THEN ValueAt(u, i - 1) ELSE -1],
       d |-> [i \in 1..(MaxB + 2) |-> IF Defined(hpost, i - 1) THEN 1 ELSE 0]]

EdgeDump ==
  DumpEdges =>
    PrintT(<<"EDGE", ToJson([pre  |-> HistSeq(hist),
                             act  |-> lastOp',
                             post |-> HistSeq(hist'),
                             exp  |-> Expect(hist, lastOp', hist')])>>)
=============================================================================
