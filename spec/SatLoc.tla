------------------------------- MODULE SatLoc -------------------------------
(***************************************************************************)
(* The two Bitcoin helper contracts that walk a transaction graph:         *)
(*   0x..fc getLastSatLocation(txid, vout, sat)                            *)
(*   0x..fd getTxDetails(txid)                                             *)
(* transcribed from src/engine/precompiles/btc_last_sat_loc_precompile.rs  *)
(* and btc_tx_details_precompile.rs.  With client-supplied transactions    *)
(* (eth_callMany `bitcoinTxHexes`) they are pure functions of the supplied *)
(* graph, so every case of the small-scope table below is one request to   *)
(* the real server (harness: vh satloc): the request must terminate with   *)
(* the answer computed here - a result or an error, never a panic (C09) -  *)
(* and the answer is part of the consensus-relevant behaviour that two     *)
(* builds of the same protocol version must share (C02).                   *)
(*                                                                         *)
(* A case: the queried transaction T has outputs `outs` (values) and       *)
(* inputs `ins`; an input is                                               *)
(*   [kind |-> "known", val |-> v]  spends a supplied parent output worth v *)
(*   [kind |-> "null"]              the null outpoint (coinbase-style)      *)
(*   [kind |-> "badvout"]           names an output its parent lacks        *)
(* (a parent that is NOT supplied is fetched from the Bitcoin node: the    *)
(* environment, out of scope).                                             *)
(***************************************************************************)
EXTENDS Naturals, Integers, Sequences, FiniteSets, TLC, Json

CONSTANTS MaxIns,      \* longest input list
          OutVals, InVals, Sats

InDesc == {[kind |-> "known", val |-> v] : v \in InVals} \cup {[kind |-> "null", val |-> 0], [kind |-> "badvout", val |-> 0]}
SeqsUpTo(S, n) == UNION {[1..k -> S] : k \in 1..n}

Cases == [outs : SeqsUpTo(OutVals, 2), ins : SeqsUpTo(InDesc, MaxIns), vout : 0..2, sat : Sats]

RECURSIVE SumTo(_, _)
SumTo(s, n) == IF n = 0 THEN 0 ELSE s[n] + SumTo(s, n - 1)

Err(why) == [ok |-> FALSE, why |-> why, vin |-> 0, off |-> 0]

(* the walk over the inputs: i = input being visited, acc = satoshis of the inputs before it *)
RECURSIVE Walk(_, _, _, _)
Walk(ins, target, i, acc) ==
  LET d == ins[i] IN
  IF d.kind = "null" THEN Err("vin-null")
  ELSE IF d.kind = "badvout" THEN Err("vin-vout")
  ELSE LET acc2 == acc + d.val IN
       IF acc2 >= target \/ i = Len(ins)
       THEN (IF acc2 < target THEN Err("insufficient")
             ELSE [ok |-> TRUE, why |-> "none", vin |-> i, off |-> target - acc])
       ELSE Walk(ins, target, i + 1, acc2)

IsCoinbase(ins) == Len(ins) = 1 /\ ins[1].kind = "null"

LastSatLocation(c) ==
  IF IsCoinbase(c.ins) THEN Err("coinbase")
  ELSE IF c.vout >= Len(c.outs) THEN Err("vout-range")          \* "Vout index out of bounds" / "Invalid response"
  ELSE IF c.outs[c.vout + 1] < c.sat THEN Err("sat-range")
  ELSE Walk(c.ins, SumTo(c.outs, c.vout) + c.sat, 1, 0)

TxDetails(c) ==
  IF \E i \in DOMAIN c.ins : c.ins[i].kind # "known" THEN [ok |-> FALSE, vin |-> <<>>, vout |-> <<>>]
  ELSE [ok |-> TRUE, vin |-> [i \in DOMAIN c.ins |-> c.ins[i].val], vout |-> c.outs]

VARIABLES case, loc, det
vars == <<case, loc, det>>

Init == case = [outs |-> <<>>, ins |-> <<>>, vout |-> 0, sat |-> 0] /\ loc = Err("init") /\ det = [ok |-> FALSE, vin |-> <<>>, vout |-> <<>>]

Next ==
  /\ loc.why = "init"
  /\ \E c \in Cases :
       /\ case' = c /\ loc' = LastSatLocation(c) /\ det' = TxDetails(c)
       /\ PrintT(<<"CASE", ToJson([outs |-> c.outs, ins |-> c.ins, vout |-> c.vout, sat |-> c.sat,
                                     loc |-> LastSatLocation(c), det |-> TxDetails(c)])>>)

Spec == Init /\ [][Next]_vars

(* sanity of the transcription itself: a located satoshi lies inside the named input, and the satoshis before it in  *)
(* the outputs equal the satoshis before it in the inputs (the ordinal rule: first in, first out)                     *)
Located ==
  loc.ok =>
     /\ loc.vin \in DOMAIN case.ins /\ case.ins[loc.vin].kind = "known"
     /\ loc.off >= 0 /\ loc.off <= case.ins[loc.vin].val
     /\ SumTo([i \in DOMAIN case.ins |-> case.ins[i].val], loc.vin - 1) + loc.off = SumTo(case.outs, case.vout) + case.sat
(* every case terminates with a verdict: a result or one of the named errors (no third outcome) *)
Total == loc.why # "init" => (loc.ok \/ loc.why \in {"coinbase", "vout-range", "sat-range", "vin-null", "vin-vout", "insufficient"})
=============================================================================
