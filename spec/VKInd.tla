------------------------------ MODULE VKInd ------------------------------
(* Typed, self-contained transcription of VersionedKey/HistOps for Apalache: the safety invariants as ONE inductive       *)
(* invariant over the DENSE block range 0..MaxB (TLC explores a sparse block set exhaustively and the dense one only by   *)
(* simulation).  The history is split into its domain `keys` and a total value function `val`; Write / Advance / Reorg are *)
(* line by line those of VersionedKey.tla.  Checked by `apalache-mc check --init=IndInit --inv=IndInv --length=1` (the     *)
(* step) and `--init=Init --inv=IndInv --length=0` (the base): every state satisfying IndInv - reachable or not - only     *)
(* has successors satisfying it.  IndInv contains RetainedIsTruth and RollbackInWindow, the two statements of C13.        *)
EXTENDS Integers, FiniteSets

CONSTANTS
  \* @type: Int;
  W,
  \* @type: Int;
  MaxB,
  \* @type: Int;
  NVals

NoVal == 0                      \* values are 0 (None) .. NVals
Opt == 0..NVals
Blocks == 0..MaxB

VARIABLES
  \* @type: Set(Int);
  keys,        \* DOMAIN of the history
  \* @type: Int -> Int;
  val,         \* the history's values (total over Blocks, meaningful on keys)
  \* @type: Int -> Int;
  truth,
  \* @type: Int;
  cur,
  \* @type: Int;
  hi

\* @type: (Set(Int)) => Int;
MaxOf(S) == CHOOSE x \in S : \A y \in S : x >= y
IsMax(S, x) == x \in S /\ \A y \in S : x >= y

Defined(n) == \E k \in keys : k <= n
\* the newest key <= n
AtKey(n, k) == k \in keys /\ k <= n /\ \A j \in keys : j <= n => j <= k

Init ==
  \E v \in Opt :
    /\ keys = {0}
    /\ val = [k \in Blocks |-> v]
    /\ truth = [n \in Blocks |-> v]
    /\ cur = 0 /\ hi = 0

Write(b, v) ==
  /\ b >= cur
  /\ \A k \in keys : b >= k
  /\ \E m \in keys :
       /\ IsMax(keys, m)
       /\ IF val[m] = v
          THEN UNCHANGED <<keys, val>>
          ELSE LET k1 == keys \cup {b}
                   old == {k \in k1 : k + W <= b}
               IN  /\ val' = [val EXCEPT ![b] = v]
                   /\ IF old = {} THEN keys' = k1
                      ELSE \E mo \in old : IsMax(old, mo) /\ keys' = (k1 \ old) \cup {mo}
  /\ truth' = [n \in Blocks |-> IF n >= b THEN v ELSE truth[n]]
  /\ cur' = b
  /\ hi' = IF b > hi THEN b ELSE hi

Advance(b) ==
  /\ b > cur
  /\ cur' = b
  /\ hi' = IF b > hi THEN b ELSE hi
  /\ UNCHANGED <<keys, val, truth>>

Reorg(n) ==
  /\ n <= cur /\ n + W >= hi
  /\ Defined(n)
  /\ keys' = {k \in keys : k <= n}
  /\ truth' = [x \in Blocks |-> IF x > n THEN truth[n] ELSE truth[x]]
  /\ cur' = n
  /\ UNCHANGED <<hi, val>>

Next ==
  \/ \E b \in Blocks, v \in Opt : Write(b, v)
  \/ \E b \in Blocks : Advance(b)
  \/ \E n \in Blocks : Reorg(n)

\* ---- the invariant
TypeOK ==
  /\ keys \subseteq Blocks /\ keys # {}
  /\ val \in [Blocks -> Opt] /\ truth \in [Blocks -> Opt]
  /\ cur \in Blocks /\ hi \in Blocks

Struct ==
  /\ \A k \in keys : k <= cur
  /\ cur <= hi
  /\ \A n \in Blocks : n >= cur => truth[n] = truth[cur]

RetainedIsTruth == \A n \in Blocks : \A k \in keys : (n <= cur /\ AtKey(n, k)) => val[k] = truth[n]
RollbackInWindow == \A n \in Blocks : (n <= cur /\ n + W >= hi) => Defined(n)
Bounded == Cardinality(keys) <= W + 1
\* two retained keys at or below the window edge cannot both exist: all but the newest "old" key were pruned
OneOld == \A a \in keys : \A b \in keys : (a < b /\ b + W <= hi /\ hi = cur) => FALSE

IndInv == TypeOK /\ Struct /\ RetainedIsTruth /\ RollbackInWindow
IndInit ==
  /\ keys \in SUBSET Blocks /\ val \in [Blocks -> Opt] /\ truth \in [Blocks -> Opt] /\ cur \in Blocks /\ hi \in Blocks
  /\ IndInv
Safety == RetainedIsTruth /\ RollbackInWindow

\* @type: () => Bool;
ConstSmall == W = 3 /\ MaxB = 9 /\ NVals = 1
\* @type: () => Bool;
ConstReal == W = 10 /\ MaxB = 24 /\ NVals = 2
=============================================================================
