------------------------------- MODULE Locks -------------------------------
(***************************************************************************)
(* Lock discipline of the RPC handlers (C11).  Each handler is a program:  *)
(* the sequence of acquisitions/releases it performs on the engine's       *)
(* RwLocks, RECORDED from the real code by hook H3 on every run            *)
(* (LockPrograms.tla is generated).  Locks are std::sync::RwLock on Linux: *)
(* writer-preferring - a reader cannot enter while a writer holds OR WAITS *)
(* for the lock, which is what makes a recursive read acquisition fatal.   *)
(* TLC explores every interleaving of every assignment of programs to the  *)
(* threads and reports each state in which some thread is unfinished and   *)
(* no thread can move.                                                     *)
(***************************************************************************)
EXTENDS Naturals, Sequences, FiniteSets, TLC, LockPrograms

CONSTANTS Threads

VARIABLES prog,     \* thread -> index into Programs
          pc,       \* thread -> next instruction (1-based)
          readers,  \* lock -> [thread -> number of read guards held]
          writer,   \* lock -> thread or "none"
          waiting   \* lock -> set of threads that have announced a write acquisition

vars == <<prog, pc, readers, writer, waiting>>

LockSet == {"db", "lbi", "config", "other"}

Instr(t) == Programs[prog[t]][pc[t]]
Done(t) == pc[t] > Len(Programs[prog[t]])

Init ==
  /\ prog \in [Threads -> 1..Len(Programs)]
  /\ pc = [t \in Threads |-> 1]
  /\ readers = [l \in LockSet |-> [t \in Threads |-> 0]]
  /\ writer = [l \in LockSet |-> "none"]
  /\ waiting = [l \in LockSet |-> {}]

NoReaders(l) == \A t \in Threads : readers[l][t] = 0

AcqR(t, l) ==
  /\ writer[l] = "none" /\ waiting[l] = {}
  /\ readers' = [readers EXCEPT ![l][t] = @ + 1]
  /\ pc' = [pc EXCEPT ![t] = @ + 1]
  /\ UNCHANGED <<prog, writer, waiting>>

RelR(t, l) ==
  /\ readers' = [readers EXCEPT ![l][t] = @ - 1]
  /\ pc' = [pc EXCEPT ![t] = @ + 1]
  /\ UNCHANGED <<prog, writer, waiting>>

Announce(t, l) ==
  /\ t \notin waiting[l]
  /\ waiting' = [waiting EXCEPT ![l] = @ \cup {t}]
  /\ UNCHANGED <<prog, pc, readers, writer>>

AcqW(t, l) ==
  /\ t \in waiting[l]
  /\ writer[l] = "none" /\ NoReaders(l)
  /\ writer' = [writer EXCEPT ![l] = t]
  /\ waiting' = [waiting EXCEPT ![l] = @ \ {t}]
  /\ pc' = [pc EXCEPT ![t] = @ + 1]
  /\ UNCHANGED <<prog, readers>>

RelW(t, l) ==
  /\ writer' = [writer EXCEPT ![l] = "none"]
  /\ pc' = [pc EXCEPT ![t] = @ + 1]
  /\ UNCHANGED <<prog, readers, waiting>>

Step(t) ==
  /\ ~Done(t)
  /\ LET i == Instr(t) IN
     CASE i[1] = "AcqR" -> AcqR(t, i[2])
       [] i[1] = "RelR" -> RelR(t, i[2])
       [] i[1] = "AcqW" -> Announce(t, i[2]) \/ AcqW(t, i[2])
       [] i[1] = "RelW" -> RelW(t, i[2])

Next == \E t \in Threads : Step(t)

Spec == Init /\ [][Next]_vars

(* deadlock: somebody is unfinished and nobody can move *)
Stuck == (\E t \in Threads : ~Done(t)) /\ ~(ENABLED Next)

(* every stuck state is printed (program assignment + positions); the run   *)
(* continues so that ALL deadlocking assignments are found, not the first   *)
Report == Stuck => PrintT(<<"DEADLOCK", [t \in Threads |-> prog[t]], [t \in Threads |-> pc[t]]>>)

(* the property as stated - "every request eventually completes" - under weak fairness of every thread (the runtime keeps *)
(* scheduling a handler that can move).  Programs are finite, so this fails exactly when some schedule ends stuck.        *)
FairSpec == Spec /\ \A t \in Threads : WF_vars(Step(t))
Termination == <>(\A t \in Threads : Done(t))

TypeOK == \A l \in LockSet : writer[l] \in Threads \cup {"none"}
=============================================================================
