----------------------------- MODULE ConfigGate -----------------------------
(***************************************************************************)
(* C20 - a database directory reopens only under its creating              *)
(* configuration.  Directory states x opening configurations -> outcome.   *)
(* TLC enumerates the table and prints every case; the harness replays     *)
(* each one through the public start() in a child process.                 *)
(***************************************************************************)
EXTENDS Naturals, Sequences, FiniteSets, TLC, Json

(* besides the names the engine knows: an unknown name, and two names that differ from known ones only in letter case (the   *)
(* engine matches names verbatim, so "Mainnet" runs under other rules than "mainnet": different strings are different networks) *)
Networks == {"mainnet", "bitcoin", "signet", "testnet", "testnet4", "regtest", "foonet", "Mainnet", "REGTEST"}
Traces   == {TRUE, FALSE}
Rows     == {"DB_VERSION", "PROTOCOL_VERSION", "BITCOIN_RPC_NETWORK", "EVM_RECORD_TRACES"}
Tampers  == {"none"} \cup {"del_" \o r : r \in Rows} \cup {"alt_" \o r : r \in Rows}
Fill     == {"empty", "populated"}        \* the created database holds no blocks / some committed blocks

Configs == [net : Networks, traces : Traces]

(* the same Bitcoin network under two names: whether such a pair reopens is not fixed by the property *)
SameNet(a, b) == a = b \/ {a, b} = {"mainnet", "bitcoin"}

Cases ==
  [kind : {"created"}, creator : Configs, opener : Configs, tamper : Tampers, fill : {"empty"}]
    \cup [kind : {"created"}, creator : Configs, opener : Configs, tamper : {"none"}, fill : {"populated"}]
    \cup [kind : {"absent", "emptydir", "foreign"}, creator : {[net |-> "regtest", traces |-> FALSE]}, opener : Configs,
          tamper : {"none"}, fill : {"empty"}]

(* what the directory SAYS after the tampering - the gate can only judge by that.  A deleted row is missing; an altered  *)
(* version or network row holds a value no build / no opener has; an altered trace row holds the opposite flag.          *)
RowsPresent(c)    == c.tamper \notin {"del_" \o r : r \in Rows}
VersionsIntact(c) == c.tamper \notin {"alt_DB_VERSION", "alt_PROTOCOL_VERSION"}
NetIntact(c)      == c.tamper # "alt_BITCOIN_RPC_NETWORK"
RecordedTraces(c) == IF c.tamper = "alt_EVM_RECORD_TRACES" THEN ~c.creator.traces ELSE c.creator.traces
RecordedEqualsOpener(c) ==
  RowsPresent(c) /\ VersionsIntact(c) /\ NetIntact(c) /\ RecordedTraces(c) = c.opener.traces /\ c.creator.net = c.opener.net

Expected(c) ==
  CASE c.kind \in {"absent", "emptydir"} -> "starts"
    [] c.kind = "foreign" -> "fails"
    [] OTHER ->
         IF ~(RowsPresent(c) /\ VersionsIntact(c) /\ NetIntact(c)) THEN "fails"
         ELSE IF RecordedTraces(c) # c.opener.traces THEN "fails"
         ELSE IF c.creator.net = c.opener.net THEN (IF c.tamper = "none" THEN "starts_same_state" ELSE "either")  \* a forged row the gate cannot tell from a true one
         ELSE IF SameNet(c.creator.net, c.opener.net) THEN "either"
         ELSE "fails"

VARIABLES case, outcome
vars == <<case, outcome>>

Init == case = [kind |-> "none"] /\ outcome = "none"

Next ==
  /\ case.kind = "none"
  /\ \E c \in Cases :
    /\ case' = c /\ outcome' = Expected(c)
    /\ PrintT(<<"CASE", ToJson([kind |-> c.kind, cnet |-> c.creator.net, ctraces |-> c.creator.traces,
                                  onet |-> c.opener.net, otraces |-> c.opener.traces, tamper |-> c.tamper,
                                  fill |-> c.fill, expect |-> Expected(c)])>>)

Spec == Init /\ [][Next]_vars

(* C20: it starts only if the directory is fresh or the recorded configuration is intact and equal *)
StartsOnlyIfSame ==
  (case.kind # "none" /\ outcome \in {"starts", "starts_same_state"}) =>
     (case.kind \in {"absent", "emptydir"} \/ RecordedEqualsOpener(case))
(* an intact directory never opens under another configuration than its creator's *)
IntactOnlyUnderCreator ==
  (case.kind = "created" /\ case.tamper = "none" /\ outcome \in {"starts", "starts_same_state"}) => case.creator = case.opener
IdenticalAlwaysReopens ==
  (case.kind = "created" /\ case.tamper = "none" /\ case.creator = case.opener) => outcome = "starts_same_state"
=============================================================================
