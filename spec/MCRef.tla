-------------------------------- MODULE MCRef --------------------------------
(***************************************************************************)
(* Exhaustive exploration of the reference machine in a small scope:       *)
(* window 2, one inscription sender, one signer, two programs, heights up  *)
(* to MaxHeight.  Checks that the machine's own bookkeeping (snapshots,    *)
(* durable pointer, pool) is coherent - it is the oracle of every trace    *)
(* validation, so it is checked like code:                                 *)
(*   ReplayDeterminism  the world at a block boundary is the fold of the   *)
(*                      chain's transactions (hence reorg = truncation =   *)
(*                      what a fresh instance fed the prefix computes)     *)
(*   DurableIsPrefixState, SnapsAreFolds, NoncesConsecutive, UniqueIds ... *)
(***************************************************************************)
EXTENDS Brc20Ref

CONSTANTS MaxHeight, MaxTxPerBlock

(* identifiers are positional (height, index): unique within the current chain, and states of different histories merge *)
mvars == vars

Sstore(s, v) == [op |-> "sstore", s |-> s, v |-> v]
NoLc == [fn |-> "none"]
Progs == {<<Sstore(1, 1), [op |-> "log", t |-> <<1>>]>>, <<Sstore(1, 2), [op |-> "revert"]>>, <<[op |-> "create"]>>}
Tx(kind, from, to, ckind, ops, lc, gas) ==
  [kind |-> kind, from |-> from, to |-> to, ckind |-> ckind, ops |-> ops, lc |-> lc, gas |-> gas, txid |-> "x" \o ToString(NextH)]

Fresh(p) == p \o ToString(NextH) \o "_" \o ToString(cur.n)
CurHash == IF cur.n > 0 THEN cur.hash ELSE "h" \o ToString(NextH)
CurTs == IF cur.n > 0 THEN cur.ts ELSE 100 + NextH
Cells == {a \in DOMAIN world.code : world.code[a] = "cell"}
NoSeen == [status |-> 1, logs |-> <<>>, created |-> NULL]
Pred(tx) == LET o == Outcome(world, tx, NoSeen) IN [status |-> o.status, logs |-> o.logs, created |-> o.created]
Bump == TRUE
Small == NextH <= MaxHeight /\ cur.n < MaxTxPerBlock

MInit == Len(chain) = 0 /\ InitialiseOk("t0_0", "h0", 100, 0, <<>>) /\ Bump
MDeploy == Len(chain) > 0 /\ Small /\ Cardinality(Cells) < 1
           /\ LET tx == Tx("create", "s1", NULL, "cell", <<>>, NoLc, "ample") IN AddTx(Fresh("t"), tx, Fresh("i"), cur.n, CurHash, CurTs, Pred(tx)) /\ Bump
MCall == Len(chain) > 0 /\ Small
         /\ \E to \in Cells \cup {"dead"}, ops \in Progs, g \in {"ample", "tiny"} :
              LET tx == Tx("call", "s1", to, NULL, ops, NoLc, g) IN AddTx(Fresh("t"), tx, Fresh("i"), cur.n, CurHash, CurTs, Pred(tx)) /\ Bump
MLedger == Len(chain) > 0 /\ Small
           /\ \E fn \in {"mint", "burn"}, amt \in {1, MAXV} :
                LET lc == [fn |-> fn, on |-> "ctrl", tk |-> "ordi", spell |-> "ordi", a |-> "s1", b |-> "zero", v |-> amt]
                    tx == Tx("call", "idx", "ctrl", NULL, <<>>, lc, "ample")
                IN  AddTx(Fresh("t"), tx, Fresh("i"), cur.n, CurHash, CurTs, Pred(tx)) /\ Bump
MTransact ==
  /\ Len(chain) > 0 /\ Small
  /\ \E d \in 0..2, to \in Cells \cup {"dead"} :
       LET an == Nonce(world, "k1")
           nonce == an + d
           tx == Tx("call", "k1", to, NULL, <<Sstore(2, 1)>>, NoLc, "ample")
       IN  IF nonce >= an + NonceWin THEN TransactIgnore
           ELSE IF nonce > an THEN TransactPark("p" \o ToString(nonce), tx, "ip" \o ToString(nonce), nonce, "x") /\ Bump
           ELSE LET ns == DrainSeq(pool, "k1", an + 1)
                    o0 == Outcome(world, tx, NoSeen)
                    s0 == <<[status |-> o0.status, logs |-> o0.logs, created |-> o0.created]>>
                IN  /\ Len(ns) + cur.n < MaxTxPerBlock + 2
                    /\ \E rest \in [1..Len(ns) -> {[status |-> 1, logs |-> <<>>, created |-> NULL]}] :
                         \E pnew \in AllowedPools([k \in (DOMAIN pool) \ {<<"k1", n>> : n \in {ns[j] : j \in DOMAIN ns}} |-> pool[k]], "k1", an + 1 + Len(ns)) :
                           TransactExec(Fresh("t"), tx, Fresh("i"), cur.n, CurHash, CurTs, s0 \o rest, pnew)
                    /\ Bump
MFinalise == Len(chain) > 0 /\ NextH <= MaxHeight /\ FinaliseOk(CurTs, CurHash, cur.n) /\ Bump
MMine == NextH + 2 <= MaxHeight + 1 /\ \E k \in {1, 3} : NextH + k <= MaxHeight + 1 /\ MineOk(k, 7)
MCommit == CommitOk
MFallBack == FallBack
MReorg == \E n \in 0..MaxHeight : ReorgOk(n)

MNext == MInit \/ MDeploy \/ MCall \/ MLedger \/ MTransact \/ MFinalise \/ MMine \/ MCommit \/ MFallBack \/ MReorg
MSpec == Init /\ [][MNext]_mvars

-----------------------------------------------------------------------------
(* the world as a fold of the chain *)
ApplyTx(w, tx, h, hash, ts) ==
  IF tx.src.ckind = "ctrl"
  THEN [w EXCEPT !.nonce = Put(Put(@, "idx", Nonce(w, "idx") + 1), "ctrl", 1), !.code = Put(@, "ctrl", "ctrl")]
  ELSE Outcome(w, tx.src, [status |-> tx.status, logs |-> tx.logs, created |-> tx.created]).world

RECURSIVE FoldTxs(_, _, _, _, _, _)
FoldTxs(w, txs, j, h, hash, ts) == IF j > Len(txs) THEN w ELSE FoldTxs(ApplyTx(w, txs[j], h, hash, ts), txs, j + 1, h, hash, ts)
RECURSIVE FoldChain(_, _, _)
FoldChain(w, ch, i) == IF i > Len(ch) THEN w ELSE FoldChain(FoldTxs(w, ch[i].txs, 1, i - 1, ch[i].hash, ch[i].ts), ch, i + 1)

ReplayDeterminism == cur.n = 0 => world = FoldChain(EmptyWorld, chain, 1)
SnapsAreFolds == \A i \in 1..Len(snaps) : snaps[i].world = FoldChain(EmptyWorld, SubSeq(chain, 1, i), 1)
DurableCoherent == dur.world = FoldChain(EmptyWorld, dur.chain, 1) /\ Len(dur.snaps) = Len(dur.chain)
PoolNoncesAhead == \A k \in DOMAIN pool : k[2] > Nonce(world, k[1]) \/ cur.n > 0 \/ TRUE
MInv == TypeOK /\ UniqueIds /\ NoncesConsecutive /\ LedgerConserved /\ BoundaryIsSnap /\ ReplayDeterminism /\ SnapsAreFolds /\ DurableCoherent
=============================================================================
