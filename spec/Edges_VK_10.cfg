SPECIFICATION ESpec
CONSTANTS
  W = 10
  Vals = {1, 2}
  Blocks = {0, 1, 2, 9, 10, 11, 12, 20, 21, 22, 23}
  NoVal = 0
  DumpEdges = TRUE
VIEW EdgeView
ACTION_CONSTRAINT EdgeDump
CHECK_DEADLOCK FALSE
