SPECIFICATION Spec
CONSTANTS
  MaxIns = 2
  OutVals = {0, 2, 5}
  InVals = {0, 1, 3, 6}
  Sats = {0, 1, 2, 3, 5, 6, 8}
INVARIANTS Located Total
CHECK_DEADLOCK FALSE
