SPECIFICATION TraceSpec
CONSTANTS
  GasPerByte = 12000
  Inf = 2000000000
  MaxNeed = 0
  Lens = {}
POSTCONDITION TraceAccepted
CHECK_DEADLOCK FALSE
