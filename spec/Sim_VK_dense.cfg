SPECIFICATION Spec
CONSTANTS
  W = 10
  Vals = {1, 2}
  Blocks = {0, 1, 2, 3, 4, 5, 6, 7, 8, 9, 10, 11, 12, 13, 14, 15, 16, 17, 18, 19, 20, 21, 22, 23, 24, 25, 26, 27, 28, 29, 30}
  NoVal = 0
  DumpEdges = TRUE
ACTION_CONSTRAINT EdgeDump
INVARIANTS TypeOK LatestIsTruth RetainedIsTruth RollbackInWindow Bounded NeverSilentlyWrong
CHECK_DEADLOCK FALSE
