------------------------------ MODULE TableRef ------------------------------
(***************************************************************************)
(* C13 at table level, the "straightforward in-memory model": a plain      *)
(* key-value map with one snapshot per block, a commit pointer and a       *)
(* W-block undo window.  VersionedTable.tla (the mechanism) is checked by  *)
(* TLC to give exactly these reads; this module generates schedules with   *)
(* the REAL window (W = 10) whose expected reads - point reads, all range  *)
(* scans, full scan - are compared with the real BlockCachedDatabase after *)
(* every step, including crash points inside commit / rollback (hook H2).  *)
(***************************************************************************)
EXTENDS Naturals, Integers, Sequences, FiniteSets, TLC, Json

CONSTANTS W, Vals, NoVal, MaxLen,
          Deep     \* TRUE: few keys, long idle stretches, commits right before rollbacks, rollbacks around the window edge - histories in which a
                   \* key's versions lie more than W blocks apart and are rolled back more than once

(* six keys in numeric order; the harness maps them to concrete keys that straddle byte boundaries *)
KeySeq == <<"k1", "k2", "k3", "k4", "k5", "k6">>

VARIABLES snap,     \* snap[n+1] = map at the end of block n (sequence; Len = h + 1)
          cur,      \* the map being built for block h + 1
          hi,       \* highest block ever written
          dur,      \* [h, map] as of the last completed commit / rollback
          torn,     \* [on, cap]
          sched

vars == <<snap, cur, hi, dur, torn, sched>>

KeySet == {KeySeq[i] : i \in DOMAIN KeySeq}
Empty == [k \in KeySet |-> NoVal]
H == Len(snap) - 1
Pick(seq) == seq[RandomElement(1..Len(seq))]

Init == snap = <<>> /\ cur = Empty /\ hi = -1 /\ dur = [h |-> -1, map |-> Empty] /\ torn = [on |-> FALSE, cap |-> -1] /\ sched = <<>>

Expect(m) == [i \in DOMAIN KeySeq |-> m[KeySeq[i]]]
Push(step) == sched' = Append(sched, step)

WriteKeys == IF Deep THEN {"k1", "k2"} ELSE KeySet

Write ==
  /\ ~torn.on
  /\ \E k \in {RandomElement(WriteKeys)}, v \in {RandomElement(Vals \cup {NoVal})} :
       /\ cur' = [cur EXCEPT ![k] = v]
       /\ Push([op |-> "write", k |-> k, v |-> v, b |-> H + 1, reads |-> Expect(cur')])
  /\ hi' = IF H + 1 > hi THEN H + 1 ELSE hi
  /\ UNCHANGED <<snap, dur, torn>>

Advance ==
  /\ ~torn.on
  /\ snap' = Append(snap, cur)
  /\ hi' = IF H + 1 > hi THEN H + 1 ELSE hi
  /\ Push([op |-> "advance", reads |-> Expect(cur)])
  /\ UNCHANGED <<cur, dur, torn>>

(* k blocks pass without a write *)
RECURSIVE Rep(_, _)
Rep(x, k) == IF k = 0 THEN <<>> ELSE <<x>> \o Rep(x, k - 1)
Idle ==
  /\ ~torn.on
  /\ \E k \in {Pick(<<2, 5, 11, 12>>)} :
       /\ snap' = snap \o Rep(cur, k)
       /\ hi' = IF H + k > hi THEN H + k ELSE hi
       /\ sched' = sched \o Rep([op |-> "advance", reads |-> Expect(cur)], k)
  /\ UNCHANGED <<cur, dur, torn>>

Commit ==
  /\ ~torn.on
  /\ dur' = [h |-> H, map |-> cur]
  /\ Push([op |-> "commit", at |-> H + 1, reads |-> Expect(cur)])
  /\ UNCHANGED <<snap, cur, hi, torn>>

FallBack(op) ==
  /\ ~torn.on
  /\ snap' = SubSeq(snap, 1, dur.h + 1)
  /\ cur' = dur.map
  /\ Push([op |-> op, reads |-> Expect(dur.map)])
  /\ UNCHANGED <<hi, dur, torn>>

Admissible(n) == n >= 0 /\ n <= H /\ n + W >= hi

Rollback ==
  /\ H >= 0
  /\ \E n \in {RandomElement({m \in (H - W - 1)..H : m >= 0})} :
       IF Admissible(n) /\ (torn.on => n <= torn.cap)
       THEN /\ snap' = SubSeq(snap, 1, n + 1)
            /\ cur' = snap[n + 1]
            /\ dur' = [h |-> n, map |-> snap[n + 1]]
            /\ torn' = [on |-> FALSE, cap |-> -1]
            /\ Push([op |-> "reorg", n |-> n, reads |-> Expect(snap[n + 1])])
            /\ UNCHANGED hi
       ELSE UNCHANGED vars

(* the process dies before persistent write number j of a commit / of a rollback to n *)
Recoverable == dur.h >= 0 /\ dur.h + W >= hi

CrashInCommit ==
  /\ ~torn.on /\ Recoverable
  /\ \E j \in {RandomElement(1..12)} :
       Push([op |-> "crash_commit", at |-> H + 1, j |-> j])
  /\ torn' = [on |-> TRUE, cap |-> dur.h]
  /\ UNCHANGED <<snap, cur, hi, dur>>

CrashInRollback ==
  /\ ~torn.on /\ H >= 1 /\ Recoverable
  /\ \E n \in {RandomElement({m \in (H - W)..H : m >= 0})}, j \in {RandomElement(1..12)} :
       /\ Admissible(n)
       /\ Push([op |-> "crash_reorg", n |-> n, j |-> j])
       /\ torn' = [on |-> TRUE, cap |-> IF n < dur.h THEN n ELSE dur.h]
  /\ UNCHANGED <<snap, cur, hi, dur>>

(* after a crash only an admissible rollback to a durable height brings the table back; if there is none the run ends *)
Recover ==
  /\ torn.on /\ torn.cap >= 0 /\ torn.cap + W >= hi
  /\ LET n == torn.cap IN
       /\ snap' = SubSeq(snap, 1, n + 1)
       /\ cur' = snap[n + 1]
       /\ dur' = [h |-> n, map |-> snap[n + 1]]
       /\ torn' = [on |-> FALSE, cap |-> -1]
       /\ Push([op |-> "reorg", n |-> n, reads |-> Expect(snap[n + 1])])
  /\ UNCHANGED hi

Done ==
  /\ PrintT(<<"SCHED", ToJson(sched)>>)
  /\ sched' = <<>> /\ snap' = <<>> /\ UNCHANGED <<cur, hi, dur>> /\ torn' = [on |-> TRUE, cap |-> -2]

Next ==
  IF torn.cap = -2 THEN FALSE
  ELSE IF Len(sched) >= MaxLen \/ (torn.on /\ ~(torn.cap >= 0 /\ torn.cap + W >= hi)) THEN Done
  ELSE IF torn.on THEN Recover
  ELSE IF Deep THEN Write \/ Write \/ Advance \/ Advance \/ Idle \/ Idle \/ Commit \/ Commit \/ Rollback \/ Rollback \/ FallBack("reopen")
  ELSE Write \/ Write \/ Write \/ Advance \/ Advance \/ Commit \/ FallBack("clear") \/ FallBack("reopen") \/ Rollback
        \/ CrashInCommit \/ CrashInRollback

Spec == Init /\ [][Next]_vars
=============================================================================
