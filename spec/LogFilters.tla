----------------------------- MODULE LogFilters -----------------------------
(* C18: every eth_getLogs filter shape, enumerated by TLC and printed one per line.             *)
(* topics: a sequence (length 0..4) of positional filters                                        *)
(*   [k |-> "any"]                 null: wildcard                                                 *)
(*   [k |-> "one", v |-> <<x>>]    a single topic                                                 *)
(*   [k |-> "alt", v |-> <<x,y>>]  alternatives                                                   *)
(* range: relative to the current height h: [f, t] with "h-k" encoded as k, -1 = omitted          *)
EXTENDS Naturals, Integers, Sequences, FiniteSets, TLC, Json

CONSTANTS Vals, MaxTopics

Pos == {[k |-> "any", v |-> <<>>]} \cup {[k |-> "one", v |-> <<x>>] : x \in Vals}
        \cup UNION {{[k |-> "alt", v |-> <<x, y>>] : y \in Vals \ {x}} : x \in Vals}
        \cup {[k |-> "alt", v |-> <<x>>] : x \in Vals}

TopicFilters == UNION {[1..n -> Pos] : n \in 0..MaxTopics}

Addrs == {"NULL", "A", "B", "dead"}

(* [fromBack, toBack]: blocks h-fromBack .. h-toBack; -1 = field omitted *)
Ranges == {<<0, 0>>, <<3, 3>>, <<1, 0>>, <<5, 0>>, <<6, 0>>, <<9, 2>>, <<-1, -1>>, <<2, -1>>, <<-1, 0>>, <<1, 3>>}

VARIABLE f
Init == f = [addr |-> "none"]
Next ==
  /\ f.addr = "none"
  /\ \E a \in Addrs, t \in TopicFilters, r \in Ranges :
       /\ f' = [addr |-> a, topics |-> t, range |-> r]
       /\ PrintT(<<"CASE", ToJson([addr |-> a, topics |-> t, fb |-> r[1], tb |-> r[2]])>>)
Spec == Init /\ [][Next]_f
=============================================================================
