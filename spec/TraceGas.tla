------------------------------ MODULE TraceGas ------------------------------
(* The Gas monitor over executions of the real engine: one Begin per program, then the estimate and the attempts. *)
EXTENDS Gas, Json, IOUtils, Sequences, TLCExt

Rec == ndJsonDeserialize(IOEnv.TRACE)
VARIABLES l, cout, eok
tvars == <<need, lo, hi, est, l, cout, eok>>

E == Rec[l]
IsEv(name) == l <= Len(Rec) /\ Rec[l].ev = name /\ l' = l + 1
Chk(label, cond) == IF cond THEN TRUE ELSE (PrintT(<<"MISMATCH", l, label>>) /\ FALSE)

TrBegin == IsEv("GasBegin") /\ lo' = 0 /\ hi' = Inf /\ est' = Inf /\ cout' = "none" /\ eok' = FALSE /\ UNCHANGED need

(* eth_call + eth_estimateGas of the program at the committed state *)
TrEstimate ==
  /\ IsEv("GasEstimate")
  /\ Chk("estimate-ok", E.call_ok => E.est_ok)             \* a call that succeeds with the call gas limit has an estimate
  /\ IF E.est_ok THEN ObsEstimate(E.est) /\ est' = E.est ELSE UNCHANGED <<lo, hi, est>>
  /\ cout' = E.out /\ eok' = E.est_ok
  /\ UNCHANGED need

TrAttempt ==
  /\ IsEv("GasAttempt")
  /\ Chk("used<=allowance", E.gas_used <= Limit(E.len))
  /\ IF E.status = 1
     THEN /\ ObsSuccess(E.len)
          /\ Chk("same-output", eok => E.out = cout)
     ELSE /\ (IF eok THEN ObsOutOfGas(E.len) ELSE UNCHANGED <<lo, hi>>)   \* a program that fails with any gas has no threshold
          /\ Chk("failed-tx-no-effect", ~E.changed /\ E.nonce_delta \in {0, 1})
  /\ Chk("some-threshold-explains-all", lo' <= hi')
  /\ Chk("estimate-sufficient", (eok /\ E.len >= 0 /\ E.len >= CeilDiv(est, GasPerByte)) => E.status = 1)
  /\ UNCHANGED <<need, est, cout, eok>>

TraceNext == TrBegin \/ TrEstimate \/ TrAttempt
TraceInit == need = 0 /\ lo = 0 /\ hi = Inf /\ est = Inf /\ l = 1 /\ cout = "none" /\ eok = FALSE
TraceSpec == TraceInit /\ [][TraceNext]_tvars
TraceAccepted ==
  LET d == TLCGet("stats").diameter IN
  IF d - 1 = Len(Rec) THEN TRUE
  ELSE Print(<<"REJECTED", d, IF d <= Len(Rec) THEN [ev |-> Rec[d].ev, res |-> "ok"] ELSE "end">>, FALSE)
=============================================================================
