SPECIFICATION TraceSpec
CONSTANTS
  W = 10
  NonceWin = 10
  AgeWin = 10
  MAXV = 1000000000
  PragueFrom = 923369
  Base = 923363
INVARIANT TraceInv
POSTCONDITION TraceAccepted
CHECK_DEADLOCK FALSE
