SPECIFICATION Spec
CONSTANTS
  GasPerByte = 3
  Inf = 40
  MaxNeed = 12
  Lens = {0, 1, 2, 3, 4, 5, 13, 14}
INVARIANTS MonitorSound EstimateSufficient
CHECK_DEADLOCK FALSE
