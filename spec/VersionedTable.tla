--------------------------- MODULE VersionedTable ---------------------------
(***************************************************************************)
(* One versioned table: src/db/cached_database/block_cached_database.rs.   *)
(*   db     persisted latest value per key                                 *)
(*   cdb    persisted version history per key (the `_cache` RocksDB)       *)
(*   cache  volatile histories of the keys touched since the last commit   *)
(* Commit and reorg are sequences of INDIVIDUAL persistent writes - per    *)
(* dirty key the history row, then the latest row (RowOrder) - and the     *)
(* process may die between any two of them (Crash).  Ghost state: `truth`  *)
(* (the plain map at the end of every block) and `durable` (the height of  *)
(* the last completed commit).                                             *)
(* Properties: C13 (behaves like a map with a W-block undo window), the    *)
(* table-level part of C03 (commit invisible) and C04 (crash recoverable). *)
(***************************************************************************)
EXTENDS HistOps, Sequences, TLC

CONSTANTS KeySet, Vals, MaxH,
          HistFirst,       \* TRUE: the history row of a key is written before its latest row
          OldLast          \* TRUE: when the history row is DELETED (newest version out of the window) the latest row goes first

VARIABLES db, cdb, cache,
          h,        \* height of the last finalised block; writes are stamped h+1
          hi,       \* highest block ever written
          pc,       \* [op |-> "idle"] | [op |-> "commit"|"reorg", at |-> block, todo |-> keys left, half |-> key or "none"]
          truth,    \* ghost: truth[n] = the map at the end of block n (n in 0..h), truth[h+1] = the map being built
          durable,  \* ghost: [h, map] - height and map as of the last completed commit / reorg (h = -1: none)
          torn      \* ghost: the process died inside a commit/reorg and no recovering reorg has completed yet;
                    \*        capN = highest admissible recovery target

vars == <<db, cdb, cache, h, hi, pc, truth, durable, torn>>

Opt == Vals \cup {NoVal}
Idle == [op |-> "idle"]

Get(f, k, d) == IF k \in DOMAIN f THEN f[k] ELSE d
Drop(f, k) == [x \in (DOMAIN f) \ {k} |-> f[x]]
With(f, k, v) == [x \in (DOMAIN f) \cup {k} |-> IF x = k THEN v ELSE f[x]]

(* retrieve_cache: memory, else the persisted history, else a fresh history seeded with the stored value AT BLOCK 0 *)
Retrieve(k) ==
  IF k \in DOMAIN cache THEN cache[k]
  ELSE IF k \in DOMAIN cdb THEN cdb[k]
  ELSE NewHist(Get(db, k, NoVal))

(* reads *)
LatestOf(k) == IF k \in DOMAIN cache THEN Latest(cache[k]) ELSE Get(db, k, NoVal)
Reads == [k \in KeySet |-> LatestOf(k)]
CurMap == truth[h + 1]

Init ==
  /\ db = <<>> /\ cdb = <<>> /\ cache = <<>>
  /\ h = -1 /\ hi = -1 /\ pc = Idle
  /\ truth = [n \in {0} |-> [k \in KeySet |-> NoVal]]
  /\ durable = [h |-> -1, map |-> [k \in KeySet |-> NoVal]]
  /\ torn = [on |-> FALSE, cap |-> -1]

(* set / unset at the height being built *)
Write(k, v) ==
  /\ pc = Idle /\ ~torn.on /\ h + 1 <= MaxH
  /\ cache' = With(cache, k, WriteHist(Retrieve(k), h + 1, v))
  /\ truth' = [truth EXCEPT ![h + 1] = [@ EXCEPT ![k] = v]]
  /\ hi' = IF h + 1 > hi THEN h + 1 ELSE hi
  /\ UNCHANGED <<db, cdb, h, pc, durable, torn>>

(* the block is finalised: the next one starts from the same map *)
Advance ==
  /\ pc = Idle /\ ~torn.on /\ h + 1 <= MaxH
  /\ h' = h + 1
  /\ truth' = [n \in (DOMAIN truth) \cup {h + 2} |-> IF n = h + 2 THEN truth[h + 1] ELSE truth[n]]
  /\ hi' = IF h + 1 > hi THEN h + 1 ELSE hi
  /\ UNCHANGED <<db, cdb, cache, pc, durable, torn>>

(* commit(h+1) at a block boundary: every dirty key, in any order *)
CommitBegin ==
  /\ pc = Idle /\ ~torn.on
  /\ pc' = [op |-> "commit", at |-> h + 1, todo |-> DOMAIN cache, half |-> "none", to |-> h, map |-> CurMap]
  /\ UNCHANGED <<db, cdb, cache, h, hi, truth, durable, torn>>

HistWrite(k, at) == IF IsOld(cache[k], at) THEN Drop(cdb, k) ELSE With(cdb, k, cache[k])
LatestWrite(k) == IF Latest(cache[k]) = NoVal THEN Drop(db, k) ELSE With(db, k, Latest(cache[k]))

HistGoesFirst(k) == IF OldLast /\ IsOld(cache[k], pc.at) THEN FALSE ELSE HistFirst

(* first row of a key *)
WriteFirst ==
  /\ pc.op \in {"commit", "reorg"} /\ pc.half = "none" /\ pc.todo # {}
  /\ \E k \in pc.todo :
       /\ IF HistGoesFirst(k) THEN cdb' = HistWrite(k, pc.at) /\ UNCHANGED db
          ELSE db' = LatestWrite(k) /\ UNCHANGED cdb
       /\ pc' = [pc EXCEPT !.half = k]
  /\ UNCHANGED <<cache, h, hi, truth, durable, torn>>

(* second row of the same key *)
WriteSecond ==
  /\ pc.op \in {"commit", "reorg"} /\ pc.half # "none"
  /\ LET k == pc.half IN
       /\ IF HistGoesFirst(k) THEN db' = LatestWrite(k) /\ UNCHANGED cdb
          ELSE cdb' = HistWrite(k, pc.at) /\ UNCHANGED db
       /\ pc' = [pc EXCEPT !.half = "none", !.todo = @ \ {k}]
  /\ UNCHANGED <<cache, h, hi, truth, durable, torn>>

(* all rows written: the cache is cleared; a reorg also moves the height *)
OpEnd ==
  /\ pc.op \in {"commit", "reorg"} /\ pc.half = "none" /\ pc.todo = {}
  /\ cache' = <<>>
  /\ durable' = [h |-> pc.to, map |-> pc.map]
  /\ IF pc.op = "reorg"
     THEN /\ h' = pc.to
          /\ truth' = [n \in {m \in DOMAIN truth : m <= pc.to} \cup {pc.to + 1} |-> IF n = pc.to + 1 THEN truth[pc.to] ELSE truth[n]]
          /\ torn' = [on |-> FALSE, cap |-> -1]
     ELSE UNCHANGED <<h, truth, torn>>
  /\ pc' = Idle
  /\ UNCHANGED <<db, cdb, hi>>

(* reorg(n): load every persisted and every cached history, truncate to <= n, then commit(n).          *)
(* The database only calls it for n <= h and n + W >= hi (and, after a crash, n <= torn.cap).          *)
ReorgBegin(n) ==
  /\ pc = Idle
  /\ n >= 0 /\ n <= h /\ n + W >= hi
  /\ torn.on => n <= torn.cap
  /\ LET ks == (DOMAIN cdb) \cup (DOMAIN cache)
     IN  /\ \A k \in ks : Defined(Retrieve(k), n)          \* otherwise the code panics ("Reorg too deep")
         /\ cache' = [k \in ks |-> Truncate(Retrieve(k), n)]
         /\ pc' = [op |-> "reorg", at |-> n, todo |-> ks, half |-> "none", to |-> n, map |-> truth[n]]
  /\ UNCHANGED <<db, cdb, h, hi, truth, durable, torn>>

(* clear_cache: uncommitted work is dropped; the table is back at its last commit *)
Clear ==
  /\ pc = Idle /\ ~torn.on
  /\ cache' = <<>>
  /\ h' = durable.h
  /\ truth' = [n \in {m \in DOMAIN truth : m <= durable.h} \cup {durable.h + 1} |->
                 IF n = durable.h + 1 THEN durable.map ELSE truth[n]]
  /\ UNCHANGED <<db, cdb, hi, pc, durable, torn>>

(* the process dies: between calls this is Clear; inside a commit / reorg the persisted rows are a mixture *)
Crash ==
  /\ pc.op \in {"commit", "reorg"}
  /\ cache' = <<>>
  /\ torn' = [on |-> TRUE, cap |-> IF pc.op = "reorg" /\ pc.to < durable.h THEN pc.to ELSE durable.h]
  /\ pc' = Idle
  /\ UNCHANGED <<db, cdb, h, hi, truth, durable>>

Next ==
  \/ \E k \in KeySet, v \in Opt : Write(k, v)
  \/ Advance \/ CommitBegin \/ WriteFirst \/ WriteSecond \/ OpEnd \/ Clear \/ Crash
  \/ \E n \in 0..MaxH : ReorgBegin(n)

Spec == Init /\ [][Next]_vars

-----------------------------------------------------------------------------
(* C13 / C03: at rest and never torn, every read is the plain map's answer - before, during (the lock hides it, but so *)
(* would the reads) and after a commit                                                                                *)
ReadsRefineMap == (pc = Idle /\ ~torn.on) => Reads = CurMap

(* C03 at table level: no single persistent write of a COMMIT changes any read *)
CommitInvisible == (pc.op = "commit") => Reads = CurMap

(* C13 / C01: a completed reorg(n) restores the map as of n (checked when OpEnd of a reorg fires: Reads' = truth[n]);   *)
(* stated as an invariant on the idle state after it: CurMap is truth[h] right after a reorg, and ReadsRefineMap holds  *)
VersionBound == \A k \in DOMAIN cdb : Cardinality(Keys(cdb[k])) <= W + 1

(* C04: a torn table is recoverable - there is an admissible target, and ReorgBegin is enabled for it (no panic) *)
Recoverable ==
  (torn.on /\ pc = Idle /\ torn.cap >= 0 /\ torn.cap + W >= hi) =>
     \A k \in (DOMAIN cdb) : Defined(cdb[k], torn.cap)

TypeOK == h >= -1 /\ durable.h >= -1
=============================================================================
