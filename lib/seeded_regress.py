#!/usr/bin/env python3
"""Development tool: re-runs every stored seeded change against the check(s) named in its meta.json, in a SCRATCH copy of /verif
whose harness depends on a scratch worktree of /repo (never on /repo itself), and reports the ones no check detects any more.
usage: seeded_regress.py <scratch verif dir> <scratch worktree> [first-index [count]]"""
import json, os, re, subprocess, sys
scratch, wt = sys.argv[1], sys.argv[2]
first = int(sys.argv[3]) if len(sys.argv) > 3 else 0
count = int(sys.argv[4]) if len(sys.argv) > 4 else 10 ** 6
root = os.path.join(os.path.dirname(os.path.dirname(os.path.abspath(__file__))), "seeded")
names = sorted(os.listdir(root))[first:first + count]
missed = []
for n in names:
    meta = json.load(open(os.path.join(root, n, "meta.json")))
    checks = re.findall(r"\bC\d\d\b", meta.get("ran", "").split("patch.diff")[-1]) or [meta["property"]]
    patch = os.path.join(root, n, "patch.diff")
    if subprocess.run(["git", "-C", wt, "apply", patch]).returncode != 0:
        print("%-60s PATCH DOES NOT APPLY" % n, flush=True)
        missed.append(n)
        continue
    hit = []
    try:
        for c in checks:
            p = subprocess.run(["./check", c], cwd=scratch, stdout=subprocess.PIPE, stderr=subprocess.STDOUT, text=True)
            if p.returncode == 1 and "VIOLATION property=" in p.stdout:
                hit.append(c)
                break
            if p.returncode == 2:
                hit.append(c + "(tool-error)")
    finally:
        subprocess.run(["git", "-C", wt, "checkout", "--", "."])
    ok = any("tool-error" not in h for h in hit)
    print("%-60s %s %s" % (n, "detected by " + ",".join(hit) if ok else "MISSED", "" if ok else hit), flush=True)
    if not ok:
        missed.append(n)
print("DONE missed=%d %s" % (len(missed), missed), flush=True)
