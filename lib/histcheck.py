"""History-shaped properties decided by Brc20Ref.tla: generate (TLC) -> execute (real engine) -> validate (TLC)."""
import glob, json, os, time
import common, tracecheck
from common import Verdict

PROPS = {
    # pid: (focus list, quick n, thorough n, maxlen, what makes a schedule non-trivial, level)
    "C01": (["reorg"], 48, 600, 50, lambda st: st.get("op") == "reorg", "a reorg"),
    "C03": (["commit"], 48, 600, 45, lambda st: st.get("op") in ("commit", "clear", "restart"), "a commit/clear/restart"),
    "C05": (["proto"], 48, 600, 40, lambda st: False, "a rejected call"),
    "C06": (["mixed", "reorg"], 48, 600, 45, lambda st: st.get("op") in ("tx", "transact"), "a transaction"),
    "C07": (["ledger"], 48, 600, 45, lambda st: st.get("via") in ("deposit", "withdraw") or (isinstance(st.get("lc"), dict) and st["lc"].get("fn") != "none"), "a ledger operation"),
    "C10": (["reads"], 48, 600, 45, lambda st: st.get("op") in ("ethcall", "estimate", "callmany"), "a read request"),
    "C17": (["reads"], 48, 600, 45, lambda st: st.get("op") == "ethcall", "an eth_call"),
    "C08": (["pool"], 64, 800, 45, lambda st: st.get("op") == "transact", "a signed transaction"),
}

TEXT = {
    "C01": "reorg = truncation",
}


def mc_ref(tier, v):
    """exhaustive small-scope run of the reference machine itself (MCRef.tla): ReplayDeterminism, SnapsAreFolds, ..."""
    cfg = "MC_Ref_quick_h3.cfg" if tier == "quick" else "MC_Ref_thorough.cfg"
    r = common.tlc("MCRef.tla", cfg, "mcref", workers=8, timeout=3000, xmx="12g")
    if r["violated"]:
        v.report("model:MCRef:" + r["violated"], "MCRef.tla violates %s under %s" % (r["violated"], cfg), {"tlc": common.tlc_tail(r, 80)})
    elif not r["ok"]:
        raise common.ToolError("TLC failed on MCRef:\n" + common.tlc_tail(r))
    return {"config": cfg, "distinct": r["distinct"], "generated": r["generated"], "depth": r["depth"]}


def run(pid, tier, seed, extra_model=None):
    if extra_model is None and pid in ("C01", "C03", "C08"):
        extra_model = mc_ref
    t0 = time.time()
    common.build_harness()
    focus, qn, tn, maxlen, nontriv, what = PROPS[pid]
    n = qn if tier == "quick" else tn
    v = Verdict(pid)
    cov = {"generator": {}, "corpus": {}}
    gen_states = 0
    scheds = []
    for k, f in enumerate(focus):
        ss, r = tracecheck.gen_schedules("%s_%s" % (pid, f), f, n // len(focus), seed + k, maxlen=maxlen)
        gen_states += r["generated"]
        scheds += ss
        cov["generator"][f] = {"schedules": len(ss), "tlc_states_generated": r["generated"]}
    import directed
    if pid == "C01":
        scheds += directed.c01_family(tier) + directed.c01_window_memory_family(tier)
    if pid == "C03":
        scheds += directed.c03_family(tier) + directed.c01_family(tier)[::3]
    if pid == "C06":
        scheds += directed.c06_gas_overflow_family() + directed.d14_family()
    if pid in ("C01", "C05", "C08"):
        scheds += directed.pool_expiry_family(tier)
    if pid in ("C08", "C05", "C06"):
        scheds += directed.pool_failed_predecessor_family()
    if pid in ("C05", "C03"):
        scheds += directed.zero_timestamp_family()
    # the committed directed corpus rides along
    for path in sorted(glob.glob(os.path.join(common.ROOT, "corpus", "*.ndjson"))):
        for line in open(path):
            if line.strip():
                scheds.append(json.loads(line)["steps"])
    if not scheds:
        raise common.ToolError("no schedules generated")
    c = tracecheck.run_corpus(pid, pid.lower(), scheds, v, shards=8 if tier == "quick" else 12)
    cov["corpus"] = c
    rejected_calls = 0
    distinct = set()
    nontrivial = 0
    for s in scheds:
        key = json.dumps(s, sort_keys=True)
        if key in distinct:
            continue
        distinct.add(key)
        if pid == "C05" or any(nontriv(st) for st in s):
            nontrivial += 1
    if pid in ("C01", "C03", "C05", "C06", "C08"):
        # the production default records no call traces: the same machine, the same histories, trace recording off (everything that
        # is derived from the execution must not depend on the trace being STORED)
        k = 10 if tier == "quick" else 60
        cov["traces_off"] = tracecheck.run_corpus(pid, pid.lower() + "_notrace", scheds[:k] + scheds[-6:], v, shards=8, traces="off")
    if pid == "C06":
        # mainnet below 929 000: the legacy transaction identity (known finding D17 is exhibited here on every run) and the
        # coherence laws across the switch to the hash of the signed bytes
        base = 928994
        extra = directed.legacy_id_collision(base) + directed.c19_fork_family(base, tier)[:1]
        tracecheck.VALIDATE_CFG[0] = "TraceRef_mainnet_rlp.cfg"
        tracecheck.BASE[0] = base
        try:
            cov["mainnet_legacy_ids"] = tracecheck.run_corpus(pid, "c06_mainnet", extra, v, shards=1, net="mainnet", light=True)
        finally:
            tracecheck.VALIDATE_CFG[0] = "TraceRef.cfg"
            tracecheck.BASE[0] = 0
    if pid == "C08":
        # mainnet: the identity of a signed transaction is its signing hash while the block under construction is below
        # 929 000 and the hash of its bytes from there on; the directed family parks below and drains at / above that height
        base = 928994
        extra = directed.c19_fork_family(base, tier)
        if tier != "quick":
            more, r = tracecheck.gen_schedules("c08_mainnet", "probe", 24, seed + 77, maxlen=42, prague=923369, base=base)
            extra += more
        tracecheck.VALIDATE_CFG[0] = "TraceRef_mainnet_rlp.cfg"
        tracecheck.BASE[0] = base
        try:
            cov["mainnet_id_regime"] = tracecheck.run_corpus(pid, "c08_mainnet", extra, v, shards=4, net="mainnet", light=True)
        finally:
            tracecheck.VALIDATE_CFG[0] = "TraceRef.cfg"
            tracecheck.BASE[0] = 0
    model = extra_model(tier, v) if extra_model else {}
    cov["model"] = model
    cov.update({
        "states": max(1, gen_states + c["tlc_states"] + model.get("distinct", 0)),
        "transitions": max(1, gen_states + c["events_validated"] + model.get("generated", 0)),
        "traces_validated_against_impl": c["runs_fully_validated"],
        "evaluations": c["events"],
        "distinct_nontrivial": max(2, nontrivial) if nontrivial >= 2 else nontrivial,
        "rule": "schedules are behaviours of Brc20Ref.tla with the real constants drawn by TLC simulation (focus %s) plus the "
                "committed directed corpus; distinct = distinct step lists; non-trivial = contains %s" % ("/".join(focus), what),
        "samples": [scheds[0][:12], scheds[-1][:12]],
        "checker_cmd": "tlc -simulate GenRef.tla ; vh play ; tlc TraceRef.tla (POSTCONDITION TraceAccepted)",
    })
    rc = v.finish()
    common.write_evidence(pid, tier, seed, "model_checking", cov,
                          ["TLC, CommunityModules Json/IOUtils", "harness re-derivations (keccak/merkle/bloom/RLP via alloy)",
                           "hand-assembled Cell contract behaves as its TLA+ semantics (selftest)",
                           "in-process RPC method table (no HTTP layer)"],
                          time.time() - t0, len(v.new))
    return rc
