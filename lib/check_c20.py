import gates


def run(tier, seed):
    return gates.run_c20(tier, seed)


def replay(path):
    print(open(path).read()[:4000])
    return 0
