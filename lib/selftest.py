"""./check selftest - shows that the machinery is not vacuous (DESIGN section 10):
  1. binding: a validated trace is corrupted in one recorded field / loses one event -> TLC must reject at that event;
  2. witnesses: specification variants that model a known-bad design must FAIL (the checker can see the difference);
  3. coverage: every accept and reject disjunct of the trace specification is exercised by the corpora."""
import copy, json, os, time
import common, tracecheck
from common import OUT, SPEC, ToolError, log


def _validate(lines, name):
    p = os.path.join(OUT, "selftest_%s.ndjson" % name)
    open(p, "w").write("\n".join(lines) + "\n")
    rej, r = tracecheck.tlc_validate(p, "selftest_" + name)
    os.remove(p)
    return rej


def run(tier, seed):
    t0 = time.time()
    common.build_harness()
    failures = []
    # ---- 1. binding
    scheds = []
    for path in ("corpus/basic1.ndjson", "corpus/pool_edge.ndjson"):
        for line in open(os.path.join(common.ROOT, path)):
            if line.strip():
                scheds.append(json.loads(line)["steps"])
    ss, _ = tracecheck.gen_schedules("selftest", "mixed", 6, seed, maxlen=40)
    scheds += ss
    traces, sp, stats = tracecheck.play("selftest", scheds, shards=2)
    lines = []
    for t in traces:
        lines += open(t).read().splitlines()
    for p in traces + sp:
        os.remove(p)
    base = _validate(lines, "base")
    if base is not None:
        failures.append("the uncorrupted corpus is rejected at line %s: %s" % (base["line"], base["labels"]))
    evs = [json.loads(l) for l in lines]

    def corrupt(kind):
        for i, e in enumerate(evs):
            o = e.get("obs")
            if not isinstance(o, dict):
                continue
            c = copy.deepcopy(e)
            if kind == "cell" and c["obs"]["cells"]:
                c["obs"]["cells"][0]["v"] = c["obs"]["cells"][0]["v"] + 1
            elif kind == "txindex" and any(t.get("present") for t in c["obs"]["txs"]):
                t = [t for t in c["obs"]["txs"] if t.get("present")][-1]
                t["i"] = t["i"] + 1
            elif kind == "pool" and c["obs"]["pool"]:
                c["obs"]["pool"][0]["nonce"] += 1
            elif kind == "logorder" and any(len(b["logs"]) >= 2 for b in c["obs"]["logs"]):
                b = [b for b in c["obs"]["logs"] if len(b["logs"]) >= 2][0]
                b["logs"][0], b["logs"][1] = b["logs"][1], b["logs"][0]
            elif kind == "nonce" and c["obs"]["nonces"]:
                c["obs"]["nonces"][-1]["n"] += 1
            elif kind == "height":
                c["obs"]["height"] = c["obs"]["height"] + 1
            elif kind == "status" and isinstance(c.get("rc"), dict):
                c["rc"]["status"] = 1 - c["rc"]["status"]
            else:
                continue
            return i, c
        return None, None

    results = []
    for kind in ("cell", "txindex", "pool", "logorder", "nonce", "height", "status"):
        i, c = corrupt(kind)
        if i is None:
            results.append({"corruption": kind, "applied": False})
            continue
        mutated = lines[:i] + [json.dumps(c, separators=(",", ":"))] + lines[i + 1:]
        rej = _validate(mutated, "c_" + kind)
        ok = rej is not None and rej["line"] == i + 1
        results.append({"corruption": kind, "applied": True, "event": i + 1, "rejected_at": rej["line"] if rej else None, "labels": rej["labels"] if rej else None})
        if not ok:
            failures.append("corruption '%s' at event %d was not rejected there (%s)" % (kind, i + 1, rej))
    # a dropped event (a silenced hook): remove the first accepted Finalise
    for i, e in enumerate(evs):
        if e.get("ev") == "Finalise" and e.get("res") == "ok":
            rej = _validate(lines[:i] + lines[i + 1:], "drop")
            results.append({"corruption": "drop-finalise", "event": i + 1, "rejected_at": rej["line"] if rej else None})
            if rej is None or rej["line"] != i + 1:
                failures.append("a trace without its Finalise event %d was not rejected there" % (i + 1))
            break
    # ---- 2. witnesses that must fail
    witnesses = []

    def must_fail(module, cfg, expect, **kw):
        r = common.tlc(module, cfg, "wit_" + cfg, workers=8, timeout=900, **kw)
        ok = r["violated"] is not None
        witnesses.append({"module": module, "config": cfg, "violated": r["violated"], "expected": expect})
        if not ok:
            failures.append("witness %s/%s was expected to violate %s but did not" % (module, cfg, expect))

    must_fail("VersionedTable.tla", "MC_VT_asis.cfg", "ReadsRefineMap (history row deleted before the latest row: D16)")
    must_fail("VersionedTable.tla", "MC_VT_latestfirst.cfg", "ReadsRefineMap (latest row written before the history row)")
    # a lock program with a nested read must deadlock against a writer
    open(os.path.join(SPEC, "LockPrograms.tla"), "w").write(
        '---- MODULE LockPrograms ----\nPrograms == << <<<<"AcqR", "db">>, <<"AcqR", "db">>, <<"RelR", "db">>, <<"RelR", "db">>>>, '
        '<<<<"AcqW", "db">>, <<"RelW", "db">>>> >>\n====\n')
    open(os.path.join(SPEC, "_locks_wit.cfg"), "w").write('SPECIFICATION Spec\nCONSTANTS Threads = {"t1", "t2"}\nINVARIANTS TypeOK Report\nCHECK_DEADLOCK FALSE\n')
    r = common.tlc("Locks.tla", "_locks_wit.cfg", "wit_locks", workers=2, timeout=300)
    os.remove(os.path.join(SPEC, "_locks_wit.cfg"))
    dl = '"DEADLOCK"' in r["out"]
    witnesses.append({"module": "Locks.tla", "config": "nested read vs writer", "deadlock_reported": dl})
    if not dl:
        failures.append("Locks.tla did not report the nested-read deadlock")
    # the wedge: one panicking executing handler makes Alive fail
    open(os.path.join(SPEC, "RpcSchema.tla"), "w").write(
        '---- MODULE RpcSchema ----\nSchema == [eth_call |-> <<<<"call", "ethcall">>>>]\nClasses == [ethcall |-> {"valid"}]\n====\n')
    open(os.path.join(SPEC, "_rpc_wit.cfg"), "w").write(
        'SPECIFICATION Spec\nCONSTANTS\n  States = {"init"}\n  PanicMethod = "eth_call"\nINVARIANTS Alive\nCHECK_DEADLOCK FALSE\n')
    r = common.tlc("RpcSurface.tla", "_rpc_wit.cfg", "wit_rpc", workers=1, timeout=300)
    os.remove(os.path.join(SPEC, "_rpc_wit.cfg"))
    witnesses.append({"module": "RpcSurface.tla", "config": "one panicking handler", "violated": r["violated"]})
    if r["violated"] != "Alive":
        failures.append("RpcSurface witness did not violate Alive")
    # VKInd: with the pruning step broken (the newest old version is not kept) the invariant must stop being inductive
    src = open(os.path.join(SPEC, "VKInd.tla")).read()
    bad = src.replace("MODULE VKInd", "MODULE VKIndBad").replace("keys' = (k1 \\ old) \\cup {mo}", "keys' = (k1 \\ old)")
    if bad.count("keys' = (k1 \\ old)") != 1 or "\\cup {mo}" in bad.split("IsMax(old, mo)")[1][:40]:
        failures.append("selftest could not build the broken VKInd module")
    else:
        open(os.path.join(SPEC, "VKIndBad.tla"), "w").write(bad)
        a = common.apalache("VKIndBad.tla", "ConstSmall", "IndInit", "IndInv", 1, "vkind_bad", timeout=900)
        os.remove(os.path.join(SPEC, "VKIndBad.tla"))
        witnesses.append({"module": "VKInd.tla", "config": "prune drops every old version", "refuted": a["violated"]})
        if not a["violated"]:
            failures.append("VKInd with a broken prune is still inductive: the invariant says nothing")
    # SatLoc: a corrupted expected answer (one offset, one input value) must be rejected by the replay
    import satloc
    sl = satloc.run("quick")
    cases = json.load(open(os.path.join(OUT, "satloc_cases.json")))
    good = [c for c in cases if c["loc"]["ok"] and c["det"]["ok"]][:2]
    if len(good) < 2 or sl["model_violation"] or sl["report"]["violations"]:
        failures.append("SatLoc did not pass on the unchanged tree, or has no located case")
    else:
        bad0 = json.loads(json.dumps(good[0])); bad0["loc"]["off"] += 1
        bad1 = json.loads(json.dumps(good[1])); bad1["det"]["vin"][0] += 1
        cp, rp = os.path.join(OUT, "satloc_bad.json"), os.path.join(OUT, "satloc_bad_rep.json")
        json.dump([bad0, bad1], open(cp, "w"))
        common.run_vh(["satloc", cp, rp])
        fns = sorted(x["fn"] for x in json.load(open(rp))["violations"])
        witnesses.append({"module": "SatLoc.tla", "config": "corrupted offset / input value", "rejected": fns})
        if fns != ["getLastSatLocation", "getTxDetails"]:
            failures.append("SatLoc replay accepted a corrupted expectation: %s" % fns)
    # ---- 3. coverage of the trace specification's disjuncts over the corpora of the history checks
    need = ["AddTx:ok", "AddTx:err", "Transact:ok", "Transact:err", "Finalise:ok", "Finalise:err", "Commit:ok", "Commit:err", "Reorg:ok", "Reorg:err",
            "Mine:ok", "Mine:err", "Initialise:enverr", "Initialise:err", "Clear:ok", "Restart:ok", "EthCall:ok", "CallMany:ok", "Estimate:ok", "GetLogs:ok"]
    seen = {}
    for pid in ("C01", "C03", "C05", "C06", "C07", "C08", "C10", "C18"):
        try:
            ev = json.load(open(os.path.join(common.EVID, pid + ".json")))
        except Exception:
            continue
        cov = ev["coverage"]
        kinds = (cov.get("corpus") or {}).get("events_by_kind") or {}
        for k, n in kinds.items():
            seen[k] = seen.get(k, 0) + n
    missing = [k for k in need if seen.get(k, 0) == 0]
    if missing:
        failures.append("trace-spec disjuncts never exercised by the last evidence runs: %s (run the history checks first)" % missing)
    report = {"binding": results, "witnesses": witnesses, "disjunct_coverage": {k: seen.get(k, 0) for k in need}, "failures": failures,
              "wall_s": round(time.time() - t0, 1)}
    json.dump(report, open(os.path.join(OUT, "selftest.json"), "w"), indent=1)
    print(json.dumps(report, indent=1)[:6000])
    return 0 if not failures else 1
