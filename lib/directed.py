"""Directed schedule families (DESIGN 5/C01 Bind (i), 5/C03): histories that put the interesting state exactly at the edge of
the 10-block window, one run per reorg target / commit placement.  They are validated against Brc20Ref like any other run."""


def _tx_call(from_, to, ops, insc, idx, h, ts, gas="ample"):
    return {"op": "tx", "via": "call", "from": from_, "to": to, "ckind": "NULL", "ops": ops, "lc": {"fn": "none"}, "insc": insc,
            "idx": idx, "hash": h, "ts": ts, "gas": gas, "txid": "x%s" % insc, "enc": "hex"}


def _sstore(s, v):
    return {"op": "sstore", "s": s, "v": v}


def window_edge(h=11, commit="tip", target=1, touch=True, tail=True, run_tag="w"):
    """block 1: deploy + write; block 2: writes, deposit, parked tx; blocks 3..h-1 empty; block h: same-value touch;
    commits per `commit`; reorg(target); two more blocks; commit; second reorg."""
    steps = [{"op": "init", "hash": "h100", "ts": 100, "height": 0}]
    n = [0]

    def insc():
        n[0] += 1
        return "%s%d" % (run_tag, n[0])

    def fin(hh, ts, count, b):
        steps.append({"op": "finalise", "ts": ts, "hash": hh, "count": count})
        if commit == "every" or (commit == "every7" and b % 7 == 0):
            steps.append({"op": "commit"})

    # block 1
    steps.append({"op": "tx", "via": "deploy", "from": "s1", "to": "NULL", "ckind": "cell", "ops": [], "lc": {"fn": "none"},
                  "insc": insc(), "idx": 0, "hash": "h1", "ts": 101, "gas": "ample", "txid": "xd1", "enc": "hex"})
    steps.append(_tx_call("s1", "c_s1_0", [_sstore(1, 1), {"op": "log", "t": [1]}], insc(), 1, "h1", 101))
    fin("h1", 101, 2, 1)
    # block 2: the keys whose last change is here
    steps.append(_tx_call("s2", "c_s1_0", [_sstore(2, 5), {"op": "create"}], insc(), 0, "h2", 102))
    steps.append({"op": "tx", "via": "deposit", "holder": "s2", "ticker": "ordi", "tk": "ordi", "amt": 7, "insc": insc(), "idx": 1, "hash": "h2", "ts": 102})
    steps.append({"op": "transact", "signer": "k1", "nonce": 2, "to": "dead", "ckind": "NULL", "ops": [], "chain": "own", "insc": insc(), "idx": 2,
                  "hash": "h2", "ts": 102, "txid": "xp", "gas": "ample", "enc": "hex"})
    fin("h2", 102, 2, 2)
    # idle stretch
    for b in range(3, h):
        fin("h%d" % b, 100 + b, 0, b)
    # block h: touch the contract without changing anything (same value), plus one real change elsewhere
    if touch:
        steps.append(_tx_call("s1", "c_s1_0", [_sstore(1, 1)], insc(), 0, "h%d" % h, 100 + h))
        fin("h%d" % h, 100 + h, 1, h)
    else:
        fin("h%d" % h, 100 + h, 0, h)
    if commit == "tip":
        steps.append({"op": "commit"})
    steps.append({"op": "reorg", "n": target})
    if tail:
        base = min(h, max(target, 0))
        # (the reference machine decides whether the reorg was acceptable; if it was refused the tail continues on the old tip,
        #  which the block numbers below do not depend on: hashes are fresh and idx/ts are per block)
        for k in range(2):
            hh = "h%d" % (500 + 10 * target + k)
            steps.append(_tx_call("s2", "c_s1_0", [_sstore(3, 3 + k)], insc(), 0, hh, 600 + k))
            steps.append({"op": "finalise", "ts": 600 + k, "hash": hh, "count": 1})
        steps.append({"op": "commit"})
        steps.append({"op": "restart"})
    return steps


def c01_family(tier):
    out = []
    hs = [11] if tier == "quick" else [3, 11, 12, 13, 25]
    for h in hs:
        for commit in ("never", "every", "every7", "tip"):
            for target in range(max(0, h - 12), h + 2):
                for touch in ((True,) if tier == "quick" else (True, False)):
                    out.append(window_edge(h=h, commit=commit, target=target, touch=touch, run_tag="w%d%s%d" % (h, commit[0], target)))
    return out


def c01_window_memory_family(tier):
    """the window is relative to the highest block EVER finalised, and the database must remember that across everything that
    empties its caches: grow to H, (commit), reorg to N1, then one of {nothing, restart, clear, commit, k new blocks (+commit)},
    then a reorg to a target inside the window of the regrown tip but outside the window of H: must be refused without effect;
    and to a target inside both: must be exact."""
    out = []
    H = 20
    for n1 in ((15,) if tier == "quick" else (15, 12)):
        for between in ("none", "restart", "clear", "regrow1", "regrow2", "regrow2_commit", "regrow2_restart"):
            for n2 in (5, 9, 10):
                s = [{"op": "init", "hash": "h100", "ts": 100, "height": 0},
                     {"op": "tx", "via": "deploy", "from": "s1", "to": "NULL", "ckind": "cell", "ops": [], "lc": {"fn": "none"}, "insc": "wm0", "idx": 0,
                      "hash": "h1", "ts": 101, "gas": "ample", "txid": "x1", "enc": "hex"},
                     {"op": "finalise", "ts": 101, "hash": "h1", "count": 1}]
                for b in range(2, H + 1):
                    hh = "h%d" % b
                    if b in (4, 9, 14, 19):
                        s.append({"op": "tx", "via": "call", "from": "s1", "to": "c_s1_0", "ckind": "NULL", "ops": [{"op": "sstore", "s": 1, "v": b % 7 + 1}],
                                  "lc": {"fn": "none"}, "insc": "wm%d" % b, "idx": 0, "hash": hh, "ts": 100 + b, "gas": "ample", "txid": "x%d" % b, "enc": "hex"})
                        s.append({"op": "finalise", "ts": 100 + b, "hash": hh, "count": 1})
                    else:
                        s.append({"op": "finalise", "ts": 100 + b, "hash": hh, "count": 0})
                s.append({"op": "commit"})
                s.append({"op": "reorg", "n": n1})
                k = {"regrow1": 1, "regrow2": 2, "regrow2_commit": 2, "regrow2_restart": 2}.get(between, 0)
                for j in range(k):
                    hh = "h%d" % (300 + j)
                    s.append({"op": "finalise", "ts": 300 + j, "hash": hh, "count": 0})
                if between in ("restart", "clear"):
                    s.append({"op": between})
                if between == "regrow2_commit":
                    s.append({"op": "commit"})
                if between == "regrow2_restart":
                    s += [{"op": "commit"}, {"op": "restart"}]
                s.append({"op": "reorg", "n": n2})
                for j in range(2):
                    hh = "h%d" % (400 + j)
                    s.append({"op": "finalise", "ts": 400 + j, "hash": hh, "count": 0})
                s += [{"op": "commit"}, {"op": "restart"}]
                out.append(s)
    return out


def c03_family(tier):
    """the same history under every commit placement, clear / restart at the end instead of a reorg"""
    out = []
    for h in ([11] if tier == "quick" else [4, 11, 12]):
        for commit in ("never", "every", "every7", "tip"):
            for ending in ("clear", "restart", "reorg_edge"):
                s = window_edge(h=h, commit=commit, target=h - 10 if ending == "reorg_edge" else h, touch=True, tail=False,
                                run_tag="c%d%s%s" % (h, commit[0], ending[0]))
                s = s[:-1]   # drop the reorg appended by window_edge
                if ending == "reorg_edge":
                    s.append({"op": "reorg", "n": max(0, h - 10)})
                else:
                    s.append({"op": ending})
                # continue from wherever we are: two blocks whose numbers do not matter
                for k in range(2):
                    hh = "h%d" % (700 + k)
                    s.append({"op": "finalise", "ts": 700 + k, "hash": hh, "count": 0})
                s.append({"op": "commit"})
                s.append({"op": "restart"})
                out.append(s)
    return out


def c04_family(tier):
    """histories above height 10 whose reorg target has new keys right above it (first-ever versions), committed before the
    reorg: the truncated histories are then 'old' and commit() deletes their history row - the crash points around that
    delete are the interesting ones"""
    out = []
    for base in ([12] if tier == "quick" else [11, 12, 25]):
        for commit_after in (True, False):
            steps = [{"op": "init", "hash": "h100", "ts": 100, "height": 0}, {"op": "mine", "k": base, "ts": 101}, {"op": "commit"}]
            hh = "h%d" % (base + 1)
            ts = 200
            steps.append({"op": "tx", "via": "deploy", "from": "s1", "to": "NULL", "ckind": "cell", "ops": [], "lc": {"fn": "none"},
                          "insc": "d%d" % base, "idx": 0, "hash": hh, "ts": ts, "gas": "ample", "txid": "xd", "enc": "hex"})
            steps.append(_tx_call("s1", "c_s1_0", [_sstore(1, 1), {"op": "log", "t": [1]}], "e%d" % base, 1, hh, ts))
            steps.append({"op": "tx", "via": "deposit", "holder": "s2", "ticker": "ordi", "tk": "ordi", "amt": 3, "insc": "f%d" % base, "idx": 2, "hash": hh, "ts": ts})
            steps.append({"op": "finalise", "ts": ts, "hash": hh, "count": 3})
            if commit_after:
                steps.append({"op": "commit"})
            steps.append({"op": "reorg", "n": base})
            out.append(steps)
    return out


def c19_family(tier):
    """a signed transaction parked with txid A, parked again (same bytes) with txid B in a later block, a reorg to a height
    between the two, then drained: it must see A.  Variants: with/without commits, reorg target before the first parking."""
    out = []
    for commit in (False, True):
        for target in (2, 1, 3):
            s = [{"op": "init", "hash": "h100", "ts": 100, "height": 0},
                 {"op": "tx", "via": "deploy", "from": "s1", "to": "NULL", "ckind": "probe", "ops": [], "lc": {"fn": "none"}, "insc": "pd",
                  "idx": 0, "hash": "h1", "ts": 101, "gas": "ample", "txid": "x1", "enc": "hex"},
                 {"op": "finalise", "ts": 101, "hash": "h1", "count": 1}]
            park = lambda txid, hh, ts, insc: {"op": "transact", "signer": "k1", "nonce": 1, "to": "c_s1_0", "ckind": "NULL", "ops": [], "chain": "own",
                                               "insc": insc, "idx": 0, "hash": hh, "ts": ts, "txid": txid, "gas": "ample", "enc": "hex"}
            s.append(park("x21", "h2", 102, "pa"))
            s.append({"op": "finalise", "ts": 102, "hash": "h2", "count": 0})
            if commit:
                s.append({"op": "commit"})
            s.append(park("x22", "h3", 103, "pb"))
            s.append({"op": "finalise", "ts": 103, "hash": "h3", "count": 0})
            if commit:
                s.append({"op": "commit"})
            s.append({"op": "reorg", "n": target})
            hh = "h%d" % (40 + target)
            s.append({"op": "transact", "signer": "k1", "nonce": 0, "to": "c_s1_0", "ckind": "NULL", "ops": [], "chain": "own", "insc": "pc",
                      "idx": 0, "hash": hh, "ts": 150, "txid": "x23", "gas": "ample", "enc": "hex"})
            s.append({"op": "finalise", "ts": 150, "hash": hh, "count": 2 if target >= 2 else 1})
            s.append({"op": "commit"})
            s.append({"op": "restart"})
            out.append(s)
    # the same signed bytes parked twice: first with a Bitcoin txid, then (re-inscribed while waiting, or after the first entry
    # expired) with the zero txid; the drained transaction must see the txid of the inscription that is actually waiting
    for gap, commit in ((1, False), (1, True), (12, False)):
        s = [{"op": "init", "hash": "h100", "ts": 100, "height": 0},
             {"op": "tx", "via": "deploy", "from": "s1", "to": "NULL", "ckind": "probe", "ops": [], "lc": {"fn": "none"}, "insc": "pd",
              "idx": 0, "hash": "h1", "ts": 101, "gas": "ample", "txid": "x1", "enc": "hex"},
             {"op": "finalise", "ts": 101, "hash": "h1", "count": 1}]
        park = lambda txid, hh, ts, insc: {"op": "transact", "signer": "k1", "nonce": 1, "to": "c_s1_0", "ckind": "NULL", "ops": [], "chain": "own",
                                           "insc": insc, "idx": 0, "hash": hh, "ts": ts, "txid": txid, "gas": "ample", "enc": "hex"}
        s.append(park("x31", "h2", 102, "za"))
        s.append({"op": "finalise", "ts": 102, "hash": "h2", "count": 0})
        if gap > 1:
            s.append({"op": "mine", "k": gap - 1, "ts": 103})
        if commit:
            s.append({"op": "commit"})
        s.append(park("zero", "h3", 104, "zb"))
        s.append({"op": "finalise", "ts": 104, "hash": "h3", "count": 0})
        s.append({"op": "transact", "signer": "k1", "nonce": 0, "to": "c_s1_0", "ckind": "NULL", "ops": [], "chain": "own", "insc": "zc",
                  "idx": 0, "hash": "h4", "ts": 105, "txid": "x33", "gas": "ample", "enc": "hex"})
        s.append({"op": "finalise", "ts": 105, "hash": "h4", "count": 2})
        out.append(s)
    # blocks whose hash is server-generated (the indexer passes the zero hash): the randomness a contract sees is the generated
    # hash of that block, for an inscription call, a signed transaction and a deposit alike
    s = [{"op": "init", "hash": "zero", "ts": 100, "height": 0},
         {"op": "tx", "via": "deploy", "from": "s1", "to": "NULL", "ckind": "probe", "ops": [], "lc": {"fn": "none"}, "insc": "zh0",
          "idx": 0, "hash": "zero", "ts": 101, "gas": "ample", "txid": "x1", "enc": "hex"},
         {"op": "finalise", "ts": 101, "hash": "zero", "count": 1}]
    for b in (2, 3):
        s.append({"op": "tx", "via": "call", "from": "s1", "to": "c_s1_0", "ckind": "NULL", "ops": [], "lc": {"fn": "none"}, "insc": "zh%da" % b,
                  "idx": 0, "hash": "zero", "ts": 100 + b, "gas": "ample", "txid": "x%d" % (60 + b), "enc": "hex"})
        s.append({"op": "transact", "signer": "k1", "nonce": b - 2, "to": "c_s1_0", "ckind": "NULL", "ops": [], "chain": "own", "insc": "zh%db" % b,
                  "idx": 1, "hash": "zero", "ts": 100 + b, "txid": "x%d" % (70 + b), "gas": "ample", "enc": "hex"})
        s.append({"op": "finalise", "ts": 100 + b, "hash": "zero", "count": 2})
    s += [{"op": "commit"}, {"op": "restart"}]
    out.append(s)
    return out


def c19_fork_family(base, tier="quick"):
    """Probe executions in every block from base+2 to base+9 (the activation height of the configuration lies inside), as an
    inscription call and as a signed transaction; variants: a signed transaction parked below the activation height and drained
    at / above it; commits, a restart and a reorg back across the activation height followed by regrowth."""
    out = []

    def call(b, idx, tag):
        return {"op": "tx", "via": "call", "from": "s1", "to": "c_s1_0", "ckind": "NULL", "ops": [], "lc": {"fn": "none"}, "insc": "fc%s%d" % (tag, b),
                "idx": idx, "hash": "h%d" % (200 + b - base), "ts": 100 + b - base, "gas": "ample", "txid": "x%d" % (300 + b - base), "enc": "hex"}

    def transact(b, idx, nonce, tag):
        return {"op": "transact", "signer": "k1", "nonce": nonce, "to": "c_s1_0", "ckind": "NULL", "ops": [], "chain": "own", "insc": "ft%s%d_%d" % (tag, b, nonce),
                "idx": idx, "hash": "h%d" % (200 + b - base), "ts": 100 + b - base, "txid": "x%d" % (400 + 10 * (b - base) + nonce), "gas": "ample", "enc": "hex"}

    def fin(b, count):
        return {"op": "finalise", "ts": 100 + b - base, "hash": "h%d" % (200 + b - base), "count": count}

    head = [{"op": "init", "hash": "h100", "ts": 100, "height": base},
            {"op": "tx", "via": "deploy", "from": "s1", "to": "NULL", "ckind": "probe", "ops": [], "lc": {"fn": "none"}, "insc": "fpd", "idx": 0,
             "hash": "h201", "ts": 101, "gas": "ample", "txid": "x301", "enc": "hex"},
            fin(base + 1, 1)]
    # 1. one inscription call and one signed transaction per block
    s = list(head)
    for k, b in enumerate(range(base + 2, base + 10)):
        s += [call(b, 0, "a"), transact(b, 1, k, "a"), fin(b, 2)]
    out.append(s)
    # 2. parked at base+4 (nonce 1), drained by nonce 0 in each of the following blocks (one schedule per drain height)
    for drain in range(base + 5, base + 9):
        s = list(head)
        for b in range(base + 2, base + 4):
            s += [call(b, 0, "b"), fin(b, 1)]
        s += [transact(base + 4, 0, 1, "b"), fin(base + 4, 0)]
        for b in range(base + 5, drain):
            s += [fin(b, 0)]
        s += [transact(drain, 0, 0, "b"), fin(drain, 2), {"op": "commit"}, {"op": "restart"}, call(drain + 1, 0, "b"), fin(drain + 1, 1)]
        out.append(s)
    # 3. commits, a reorg back across the activation height, regrowth
    s = list(head)
    for b in range(base + 2, base + 9):
        s += [call(b, 0, "c"), fin(b, 1)]
        if b == base + 4:
            s.append({"op": "commit"})
    s.append({"op": "reorg", "n": base + 4})
    for b in range(base + 5, base + 9):
        x = call(b, 0, "d")
        x["hash"] = "h%d" % (260 + b - base)
        f = fin(b, 1)
        f["hash"] = x["hash"]
        s += [x, f]
    s += [{"op": "commit"}, {"op": "restart"}]
    out.append(s)
    return out


def legacy_id_collision(base):
    """known finding D17: two signers send the same (nonce, target, data) while the signing hash is the transaction identity."""
    s = [{"op": "init", "hash": "h100", "ts": 100, "height": base}]
    for k, signer in enumerate(("k1", "k2")):
        s.append({"op": "transact", "signer": signer, "nonce": 0, "to": "dead", "ckind": "NULL", "ops": [], "chain": "own", "insc": "lg%d" % k, "idx": k,
                  "hash": "h201", "ts": 101, "txid": "x%d" % (501 + k), "gas": "ample", "enc": "hex"})
    s.append({"op": "finalise", "ts": 101, "hash": "h201", "count": 2})
    s.append({"op": "commit"})
    return [s]


def c06_gas_overflow_family():
    """a transaction with the saturated allowance (2^64-1) that halts burns all of it: the block's running gas total does not
    fit 64 bits.  Receipts and block must still agree with each other (last cumulative = block gasUsed, cumulative monotone)."""
    out = []
    head = [{"op": "init", "hash": "h100", "ts": 100, "height": 0},
            {"op": "tx", "via": "deploy", "from": "s1", "to": "NULL", "ckind": "cell", "ops": [], "lc": {"fn": "none"}, "insc": "go0", "idx": 0,
             "hash": "h1", "ts": 101, "gas": "ample", "txid": "x1", "enc": "hex"},
            {"op": "finalise", "ts": 101, "hash": "h1", "count": 1}]

    def call(idx, ops, gas, tag):
        return {"op": "tx", "via": "call", "from": "s1", "to": "c_s1_0", "ckind": "NULL", "ops": ops, "lc": {"fn": "none"}, "insc": "go%s%d" % (tag, idx),
                "idx": idx, "hash": "h2", "ts": 102, "gas": gas, "txid": "x%d" % (10 + idx), "enc": "hex"}
    store = [{"op": "sstore", "s": 1, "v": 1}]
    halt = [{"op": "invalid"}]
    for tag, txs in (("a", [(store, "ample"), (halt, "max"), (store, "ample")]), ("b", [(store, "ample"), (halt, "max")]),
                     ("c", [(halt, "max"), (halt, "max"), (store, "ample")]), ("d", [(halt, "max"), (store, "ample")])):
        s = list(head)
        for i, (ops, gas) in enumerate(txs):
            s.append(call(i, ops, gas, tag))
        s.append({"op": "finalise", "ts": 102, "hash": "h2", "count": len(txs)})
        s.append({"op": "commit"})
        out.append(s)
    return out


def pool_expiry_family(tier="quick"):
    """a signed transaction parked in block 2 idles its whole window and is dropped while block 12 is finalised.  Around that
    edge: reorgs to exactly 12 / 11 / 13 (with and without a commit) must show the pool a fresh replay up to the target would
    have; a REJECTED finalise of block 12 must not drop it early; a predecessor arriving in block 11 / 12 drains it or not."""
    out = []
    head = [{"op": "init", "hash": "h100", "ts": 100, "height": 0},
            {"op": "tx", "via": "deploy", "from": "s1", "to": "NULL", "ckind": "cell", "ops": [], "lc": {"fn": "none"}, "insc": "pe0", "idx": 0,
             "hash": "h1", "ts": 101, "gas": "ample", "txid": "x1", "enc": "hex"},
            {"op": "finalise", "ts": 101, "hash": "h1", "count": 1},
            {"op": "transact", "signer": "k1", "nonce": 1, "to": "c_s1_0", "ckind": "NULL", "ops": [{"op": "sstore", "s": 2, "v": 3}], "chain": "own",
             "insc": "pe1", "idx": 0, "hash": "h2", "ts": 102, "txid": "x2", "gas": "ample", "enc": "hex"},
            {"op": "finalise", "ts": 102, "hash": "h2", "count": 0}]
    fin = lambda b: {"op": "finalise", "ts": 100 + b, "hash": "h%d" % b, "count": 0}
    for commit in (False, True):
        for target in (12, 11, 13):
            s = list(head) + [fin(b) for b in range(3, 15)]
            if commit:
                s.append({"op": "commit"})
            s.append({"op": "reorg", "n": target})
            s += [{"op": "finalise", "ts": 300, "hash": "h300", "count": 0}, {"op": "finalise", "ts": 301, "hash": "h301", "count": 0}, {"op": "commit"}, {"op": "restart"}]
            out.append(s)
    # a rejected finalise (wrong count / a hash already on the chain) of the block whose finalise would drop the entry
    for bad in ({"count": 5}, {"hash": "h5"}):
        s = list(head) + [fin(b) for b in range(3, 12)]
        f = fin(12)
        f.update(bad)
        s += [f, fin(12), fin(13), {"op": "commit"}]
        out.append(s)
    # the SAME signed bytes are inscribed again while waiting (block 8): the entry's window starts again.  The predecessor arrives
    # after the first window has closed and before the second has (block 13 / 17), or after both (block 18)
    for arrive in (13, 17, 18):
        s = list(head) + [fin(b) for b in range(3, 8)]
        again = dict(head[3])
        again.update({"insc": "pe1b", "hash": "h8", "ts": 108, "txid": "x2b"})
        s += [again, fin(8)] + [fin(b) for b in range(9, arrive)]
        hh = "h%d" % arrive
        s.append({"op": "transact", "signer": "k1", "nonce": 0, "to": "c_s1_0", "ckind": "NULL", "ops": [{"op": "sstore", "s": 1, "v": 1}], "chain": "own",
                  "insc": "pe9", "idx": 0, "hash": hh, "ts": 100 + arrive, "txid": "x9", "gas": "ample", "enc": "hex"})
        s.append({"op": "finalise", "ts": 100 + arrive, "hash": hh, "count": 2 if arrive < 18 else 1})
        s += [fin(arrive + 1), {"op": "commit"}]
        out.append(s)
    # the predecessor arrives in the last block of the window / one block too late
    for arrive in (11, 12):
        s = list(head) + [fin(b) for b in range(3, arrive)]
        hh = "h%d" % arrive
        s.append({"op": "transact", "signer": "k1", "nonce": 0, "to": "c_s1_0", "ckind": "NULL", "ops": [{"op": "sstore", "s": 1, "v": 1}], "chain": "own",
                  "insc": "pe9", "idx": 0, "hash": hh, "ts": 100 + arrive, "txid": "x9", "gas": "ample", "enc": "hex"})
        s.append({"op": "finalise", "ts": 100 + arrive, "hash": hh, "count": 2 if arrive == 11 else 1})
        s += [fin(arrive + 1), {"op": "commit"}]
        out.append(s)
    return out


def d14_family():
    """known finding D14, exhibited on every run of C06: an inscription call that is invalid (inscription length 1: gas limit below
    the intrinsic cost) consumes no nonce, so the same call submitted again gets the same transaction hash."""
    ops = [{"op": "sstore", "s": 1, "v": 2}]
    call = lambda idx, gas, insc: {"op": "tx", "via": "call", "from": "s1", "to": "c_s1_0", "ckind": "NULL", "ops": ops, "lc": {"fn": "none"}, "insc": insc,
                                  "idx": idx, "hash": "h2", "ts": 102, "gas": gas, "txid": "x%d" % (20 + idx), "enc": "hex"}
    return [[{"op": "init", "hash": "h100", "ts": 100, "height": 0},
             {"op": "tx", "via": "deploy", "from": "s1", "to": "NULL", "ckind": "cell", "ops": [], "lc": {"fn": "none"}, "insc": "d14a", "idx": 0,
              "hash": "h1", "ts": 101, "gas": "ample", "txid": "x1", "enc": "hex"},
             {"op": "finalise", "ts": 101, "hash": "h1", "count": 1},
             call(0, "tiny", "d14b"), call(1, "ample", "d14c"),
             {"op": "finalise", "ts": 102, "hash": "h2", "count": 2}]]


def pool_failed_predecessor_family():
    """C08: the predecessor a parked transaction waits for is VALID but FAILS (reverts / halts on an invalid opcode / runs out of
    gas).  It still consumes its nonce, so the parked successor must be executed in the same call, at the next index (two receipts,
    finalise count 2) and must leave the pool; with two parked successors all three go in one call."""
    out = []
    head = [{"op": "init", "hash": "h100", "ts": 100, "height": 0},
            {"op": "tx", "via": "deploy", "from": "s1", "to": "NULL", "ckind": "cell", "ops": [], "lc": {"fn": "none"}, "insc": "pf0", "idx": 0,
             "hash": "h1", "ts": 101, "gas": "ample", "txid": "x1", "enc": "hex"},
            {"op": "finalise", "ts": 101, "hash": "h1", "count": 1}]

    def transact(nonce, ops, insc, idx, b, gas="ample"):
        return {"op": "transact", "signer": "k1", "nonce": nonce, "to": "c_s1_0", "ckind": "NULL", "ops": ops, "chain": "own", "insc": insc,
                "idx": idx, "hash": "h%d" % b, "ts": 100 + b, "txid": "x" + insc, "gas": gas, "enc": "hex"}
    fin = lambda b, count: {"op": "finalise", "ts": 100 + b, "hash": "h%d" % b, "count": count}
    bad_ops = ([{"op": "sstore", "s": 1, "v": 2}, {"op": "revert"}], [{"op": "sstore", "s": 1, "v": 2}, {"op": "invalid"}])
    for k, ops in enumerate(bad_ops):
        for parked in (1, 2):
            for same_block in (True, False):
                s = list(head)
                for j in range(parked, 0, -1):
                    s.append(transact(j, [{"op": "sstore", "s": 2 + j, "v": j}], "pf%d%d%d" % (k, parked, j), 0, 2))
                if same_block:
                    s += [transact(0, ops, "pf%d%dz" % (k, parked), 0, 2), fin(2, 1 + parked)]
                else:
                    s += [fin(2, 0), transact(0, ops, "pf%d%dz" % (k, parked), 0, 3), fin(3, 1 + parked)]
                s += [fin(4 if not same_block else 3, 0), {"op": "commit"}]
                out.append(s)
    return out


def zero_timestamp_family():
    """C05: a block under construction whose timestamp is 0 (a legal value, and the value a 'not set' field has): a later call or a
    finalise of that block with another timestamp must be rejected like for any other block, and the block then continues."""
    out = []
    for first_via in ("deploy", "deposit"):
        s = [{"op": "init", "hash": "h100", "ts": 0, "height": 0}]
        s.append({"op": "tx", "via": "deploy", "from": "s1", "to": "NULL", "ckind": "cell", "ops": [], "lc": {"fn": "none"}, "insc": "zt0", "idx": 0,
                  "hash": "h1", "ts": 0, "gas": "ample", "txid": "x1", "enc": "hex"})
        s.append(_tx_call("s1", "c_s1_0", [_sstore(1, 1)], "zt1", 1, "h1", 1700000000))      # rejected: other timestamp
        s.append({"op": "finalise", "ts": 7, "hash": "h1", "count": 1})                        # rejected: other timestamp
        s.append(_tx_call("s1", "c_s1_0", [_sstore(1, 2)], "zt2", 1, "h1", 0))
        s.append({"op": "finalise", "ts": 1, "hash": "h1", "count": 2})                        # rejected
        s.append({"op": "finalise", "ts": 0, "hash": "h1", "count": 2})
        s.append(_tx_call("s1", "c_s1_0", [_sstore(1, 3)], "zt3", 0, "h2", 0))
        s.append(_tx_call("s1", "c_s1_0", [_sstore(2, 3)], "zt4", 1, "h2", 5))                # rejected
        s.append({"op": "finalise", "ts": 0, "hash": "h2", "count": 1})
        s.append({"op": "commit"})
        if first_via == "deposit":
            s = s[:1] + [{"op": "finalise", "ts": 0, "hash": "h90", "count": 0}] + s[1:]
        out.append(s)
    return out
