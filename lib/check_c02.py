"""C02 - replicas fed the same call history agree byte for byte.
The reference machine is deterministic (ReplayDeterminism: the world is a function of the chain) and defines the order of every
list; each TLC-generated schedule runs on three real instances (two in one process with different hash-map seeds - one of them
restarted right after a commit - and one in a child process) and the normalised raw answers of every call and every projection
query are compared; pinned digests of a fixed corpus bind the current tree to the reference of the same protocol/db version."""
import concurrent.futures, json, os, re, time
import common, tracecheck
from common import Verdict, ToolError, OUT, ROOT


def versions():
    src = open("/repo/src/global/config.rs").read()
    dbv = re.search(r"static ref DB_VERSION: u32 = (\d+);", src)
    pv = re.search(r"static ref PROTOCOL_VERSION: u32 = (\d+);", src)
    return (int(pv.group(1)) if pv else None, int(dbv.group(1)) if dbv else None)


def run(tier, seed):
    t0 = time.time()
    common.build_harness()
    v = Verdict("C02")
    n = 16 if tier == "quick" else 300
    scheds = []
    gen = 0
    for k, f in enumerate(["mixed", "pool", "reads", "ledger"]):
        ss, r = tracecheck.gen_schedules("c02_" + f, f, n // 4, seed + 31 * k, maxlen=40)
        scheds += ss
        gen += r["generated"]
    shards = 8
    chunks = [scheds[i::shards] for i in range(shards)]

    def one(k):
        sp = os.path.join(OUT, "c02_sched_%d.ndjson" % k)
        rp = os.path.join(OUT, "c02_rep_%d.json" % k)
        tracecheck.write_schedules(sp, chunks[k], first_run=1 + 1000 * k)
        p = common.run_vh(["replicas", sp, rp], timeout=3400)
        if p.returncode == 2:
            raise ToolError("vh replicas failed: " + p.stderr[-1500:])
        return json.load(open(rp))

    runs = events = 0
    with concurrent.futures.ThreadPoolExecutor(max_workers=shards) as ex:
        for rep in ex.map(one, range(shards)):
            runs += rep["runs"]
            events += rep["events"]
            for viol in rep["violations"]:
                step = viol.get("step") or {}
                sig = "replica:%s:%s" % (viol["pair"].replace(" ", "-"), step.get("op"))
                v.report(sig, "%s: answers differ at event %s (%s): %s" % (viol["pair"], viol["event"], json.dumps(step)[:150], json.dumps(viol["detail"])[:400]),
                         {"kind": "schedule", "schedule": viol["schedule"], "rejection": {"pair": viol["pair"], "event": viol["event"], "detail": viol["detail"]}})
    # pinned digests
    gold = json.load(open(os.path.join(ROOT, "golden", "digests.json")))
    pv, dbv = versions()
    golden_checked = 0
    golden_note = ""
    satloc_cov = {}
    if (pv, dbv) == (gold["protocol_version"], gold["db_version"]):
        gp = os.path.join(OUT, "c02_golden.json")
        p = common.run_vh(["golden", os.path.join(ROOT, "golden", "corpus.ndjson"), gp], timeout=1800)
        if p.returncode != 0:
            raise ToolError("vh golden failed: " + p.stderr[-1500:])
        now = json.load(open(gp))
        corpus = [json.loads(l) for l in open(os.path.join(ROOT, "golden", "corpus.ndjson")) if l.strip()]
        for run, d in gold["digests"].items():
            golden_checked += 1
            if now.get(run) != d:
                sc = [c for c in corpus if str(c["run"]) == run]
                v.report("golden:%s" % run, "the answers for golden schedule %s differ from the pinned digest of protocol %s / db %s" % (run, pv, dbv),
                         {"kind": "golden", "run": run, "expected": d, "got": now.get(run), "schedule": sc[0]["steps"] if sc else None})
        # the transaction-graph helper contracts answer as the reference transcription (SatLoc.tla) says
        import satloc
        sl = satloc.run(tier)
        if sl["model_violation"]:
            v.report("model:SatLoc:" + sl["model_violation"], "SatLoc.tla violates " + sl["model_violation"], {"tlc": sl["tlc"]})
        else:
            for viol in sl["report"]["violations"]:
                if viol["kind"] == "mismatch":
                    v.report(satloc.signature(viol), "%s %s: %s" % (viol["fn"], json.dumps(viol["case"])[:300], "; ".join(viol["why"])[:300]),
                             {"kind": "satloc", "case": viol["case"], "observed": viol})
            satloc_cov = {k: sl["report"][k] for k in ("cases", "requests", "located", "errors")}
    else:
        golden_note = "tree declares protocol %s / db %s, pinned digests are for %s / %s: comparison skipped" % (
            pv, dbv, gold["protocol_version"], gold["db_version"])
    cov = {"evaluations": runs * 3 + golden_checked, "distinct_nontrivial": max(2, runs),
           "rule": "schedules from GenRef.tla (mixed/pool/reads/ledger focus); each is executed on 3 instances and every normalised raw "
                   "answer compared; non-trivial = a schedule with multi-transaction blocks or multi-log receipts (all generated "
                   "schedules have both with high probability; counted as distinct schedules)",
           "samples": [scheds[0][:8]], "replica_runs": runs, "events_compared": events, "golden_schedules_checked": golden_checked,
           "golden_note": golden_note, "tlc_states_generated": gen, "satloc_cases": satloc_cov,
           "checker_cmd": "tlc -simulate GenRef.tla ; vh replicas ; vh golden ; tlc SatLoc.tla ; vh satloc"}
    rc = v.finish()
    common.write_evidence("C02", tier, seed, "exploration", cov,
                          ["JSON object member order is canonicalised (only list order is significant); mineTimestamp zeroed",
                           "golden digests bind only trees declaring the same protocol and db version"],
                          time.time() - t0, len(v.new))
    return rc


def replay(path):
    return tracecheck.replay_schedule(path)
