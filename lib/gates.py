"""Decision-table specifications (AuthGate C12, ConfigGate C20): TLC enumerates the whole table and checks the
property on it; every case is replayed against a real server started through the public start()."""
import json, os, re, time
import common
from common import Verdict, ToolError, OUT, SPEC


def tlc_cases(module, cfg_text, name, invariants):
    cfg = "_%s.cfg" % name
    with open(os.path.join(SPEC, cfg), "w") as f:
        f.write(cfg_text)
    raw = os.path.join(OUT, "%s_cases.txt" % name)
    r = common.tlc(module, cfg, name, workers=1, timeout=600, stdout_path=None)
    os.remove(os.path.join(SPEC, cfg))
    cases = []
    for line in r["out"].splitlines():
        if line.startswith('<<"CASE", '):
            cases.append(json.loads(json.loads(line.strip()[len('<<"CASE", '):-2])))
    return cases, r


def run_c12(tier, seed):
    t0 = time.time()
    common.build_harness()
    v = Verdict("C12")
    p = common.run_vh(["methods"])
    if p.returncode != 0:
        raise ToolError("vh methods failed: " + p.stderr[-500:])
    methods = json.loads(p.stdout.strip().splitlines()[-1])
    cfg = ("SPECIFICATION Spec\nCONSTANTS Methods = {%s}\nINVARIANTS NoDriveWithoutCredentials PublicReadsWork "
           "CredentialsWork AuthOffOpen\nCHECK_DEADLOCK FALSE\n" % ", ".join('"%s"' % m for m in methods))
    cases, r = tlc_cases("AuthGate.tla", cfg, "authgate", None)
    if r["violated"]:
        v.report("model:" + r["violated"], "AuthGate.tla violates " + r["violated"], {"tlc": common.tlc_tail(r, 60)})
    elif not r["ok"]:
        raise ToolError("TLC failed on AuthGate:\n" + common.tlc_tail(r))
    cpath = os.path.join(OUT, "auth_cases.json")
    json.dump(cases, open(cpath, "w"))
    import concurrent.futures

    def half(which):
        rpath = os.path.join(OUT, "auth_report_%s.json" % which)
        p = common.run_vh(["auth", cpath, rpath, which], timeout=1800)
        if p.returncode == 2:
            raise ToolError("vh auth failed: " + p.stderr[-2000:])
        return json.load(open(rpath))

    with concurrent.futures.ThreadPoolExecutor(max_workers=2) as ex:
        halves = list(ex.map(half, ["on", "off"]))
    rep = {"cases": sum(h["cases"] for h in halves), "expected_executed": sum(h["expected_executed"] for h in halves),
           "expected_refused": sum(h["expected_refused"] for h in halves),
           "violations": halves[0]["violations"] + halves[1]["violations"], "samples": halves[0]["samples"][:3] + halves[1]["samples"][:3]}
    for viol in rep["violations"]:
        c = viol["case"]
        sig = "auth:%s:%s:%s:%s:%s" % (c["method"], c["form"], c["header"], "on" if c["auth"] else "off", c.get("transport", "http"))
        v.report(sig, "%s -> %s" % (sig, "; ".join(viol["why"])), {"kind": "auth", "case": c, "observed": viol})
    cov = {"states": max(1, r["distinct"]), "transitions": max(1, r["generated"]),
           "traces_validated_against_impl": rep["cases"], "exhaustive": True,
           "samples": rep["samples"][:4] or ["none"], "methods_registered": len(methods),
           "cases_expected_executed": rep["expected_executed"], "cases_expected_refused": rep["expected_refused"],
           "forms": ["call", "notification", "batch_first", "batch_mid", "batch_last", "batch_notification", "batch_after_invalid", "batch_before_invalid"],
           "transports": ["http", "ws (forms call, notification, batch_mid, batch_notification, batch_after_invalid)"],
           "explanation": "the whole table (every registered method x 8 forms x 5 headers x auth on/off over HTTP, and 5 forms over "
                          "a WebSocket connection whose upgrade request carries the header) against a server started by the "
                          "public start(); state digest before/after every request",
           "checker_cmd": "tlc AuthGate.tla ; vh auth"}
    rc = v.finish()
    common.write_evidence("C12", tier, seed, "model_checking", cov,
                          ["one request frame per WebSocket connection (a connection is not reused across cases)",
                           "execution of brc20_commitToDatabase / brc20_initialise as a notification is unobservable from outside"],
                          time.time() - t0, len(v.new))
    return rc


def run_c20(tier, seed):
    import concurrent.futures
    t0 = time.time()
    common.build_harness()
    v = Verdict("C20")
    cfg = "SPECIFICATION Spec\nINVARIANTS StartsOnlyIfSame IdenticalAlwaysReopens IntactOnlyUnderCreator\nCHECK_DEADLOCK FALSE\n"
    cases, r = tlc_cases("ConfigGate.tla", cfg, "configgate", None)
    if r["violated"]:
        v.report("model:" + r["violated"], "ConfigGate.tla violates " + r["violated"], {"tlc": common.tlc_tail(r, 60)})
    elif not r["ok"]:
        raise ToolError("TLC failed on ConfigGate:\n" + common.tlc_tail(r))
    if tier == "quick":
        # the whole table of (creator, opener) pairs and every tamper on a matching pair; tampers on mismatching pairs
        # (which must fail for two reasons) are left to the thorough tier
        cases = [c for c in cases if c["tamper"] == "none" or (c["cnet"] == c["onet"] and c["ctraces"] == c["otraces"])]
    shards = 8
    chunks = [cases[i::shards] for i in range(shards)]

    def one(k):
        cp = os.path.join(OUT, "cfg_cases_%d.json" % k)
        rp = os.path.join(OUT, "cfg_report_%d.json" % k)
        json.dump(chunks[k], open(cp, "w"))
        p = common.run_vh(["cfggate", cp, rp], timeout=3000)
        if p.returncode == 2:
            raise ToolError("vh cfggate failed: " + p.stderr[-2000:])
        return json.load(open(rp))

    tot = {"cases": 0, "started": 0, "failed": 0}
    samples = []
    with concurrent.futures.ThreadPoolExecutor(max_workers=shards) as ex:
        for rep in ex.map(one, range(shards)):
            for k in tot:
                tot[k] += rep[k]
            samples += rep["samples"][:1]
            for viol in rep["violations"]:
                c = viol["case"]
                sig = "cfg:%s:%s/%s->%s/%s:%s:%s" % (c["kind"], c["cnet"], c["ctraces"], c["onet"], c["otraces"], c["tamper"], c["fill"])
                v.report(sig, "%s expected %s, observed %s (%s)" % (sig, c["expect"], viol.get("outcome"), viol.get("detail", viol.get("why", ""))[:200]),
                         {"kind": "cfg", "case": c, "observed": viol})
    cov = {"states": max(1, r["distinct"]), "transitions": max(1, r["generated"]),
           "traces_validated_against_impl": tot["cases"], "exhaustive": tier == "thorough",
           "samples": samples[:4] or ["none"], "started": tot["started"], "failed_to_start": tot["failed"],
           "explanation": "directory state x opening configuration table replayed through the public start(); on success the "
                          "state digest must equal the one recorded before shutdown",
           "checker_cmd": "tlc ConfigGate.tla ; vh cfggate"}
    rc = v.finish()
    common.write_evidence("C20", tier, seed, "model_checking", cov,
                          ["tampering is done by writing the config RocksDB directly (key/value = u32 length + utf8)",
                           "protocol/db version mismatch is produced by altering the recorded rows, not by rebuilding the crate"],
                          time.time() - t0, len(v.new))
    return rc
