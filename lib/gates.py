"""Decision-table specifications (AuthGate C12, ConfigGate C20): TLC enumerates the whole table and checks the
property on it; every case is replayed against a real server started through the public start()."""
import json, os, re, time
import common
from common import Verdict, ToolError, OUT, SPEC


def tlc_cases(module, cfg_text, name, invariants):
    cfg = "_%s.cfg" % name
    with open(os.path.join(SPEC, cfg), "w") as f:
        f.write(cfg_text)
    raw = os.path.join(OUT, "%s_cases.txt" % name)
    r = common.tlc(module, cfg, name, workers=1, timeout=600, stdout_path=None)
    os.remove(os.path.join(SPEC, cfg))
    cases = []
    for line in r["out"].splitlines():
        if line.startswith('<<"CASE", '):
            cases.append(json.loads(json.loads(line.strip()[len('<<"CASE", '):-2])))
    return cases, r


def run_c12(tier, seed):
    t0 = time.time()
    common.build_harness()
    v = Verdict("C12")
    p = common.run_vh(["methods"])
    if p.returncode != 0:
        raise ToolError("vh methods failed: " + p.stderr[-500:])
    methods = json.loads(p.stdout.strip().splitlines()[-1])
    cfg = ("SPECIFICATION Spec\nCONSTANTS Methods = {%s}\nINVARIANTS NoDriveWithoutCredentials PublicReadsWork "
           "CredentialsWork AuthOffOpen\nCHECK_DEADLOCK FALSE\n" % ", ".join('"%s"' % m for m in methods))
    cases, r = tlc_cases("AuthGate.tla", cfg, "authgate", None)
    if r["violated"]:
        v.report("model:" + r["violated"], "AuthGate.tla violates " + r["violated"], {"tlc": common.tlc_tail(r, 60)})
    elif not r["ok"]:
        raise ToolError("TLC failed on AuthGate:\n" + common.tlc_tail(r))
    cpath = os.path.join(OUT, "auth_cases.json")
    json.dump(cases, open(cpath, "w"))
    rpath = os.path.join(OUT, "auth_report.json")
    p = common.run_vh(["auth", cpath, rpath], timeout=1800)
    if p.returncode == 2:
        raise ToolError("vh auth failed: " + p.stderr[-2000:])
    rep = json.load(open(rpath))
    for viol in rep["violations"]:
        c = viol["case"]
        sig = "auth:%s:%s:%s:%s" % (c["method"], c["form"], c["header"], "on" if c["auth"] else "off")
        v.report(sig, "%s -> %s" % (sig, "; ".join(viol["why"])), {"kind": "auth", "case": c, "observed": viol})
    cov = {"states": max(1, r["distinct"]), "transitions": max(1, r["generated"]),
           "traces_validated_against_impl": rep["cases"], "exhaustive": True,
           "samples": rep["samples"][:4] or ["none"], "methods_registered": len(methods),
           "cases_expected_executed": rep["expected_executed"], "cases_expected_refused": rep["expected_refused"],
           "forms": ["call", "notification", "batch_first", "batch_mid", "batch_last", "batch_notification"],
           "explanation": "the whole table (every registered method x 6 forms x 5 headers x auth on/off) over HTTP against "
                          "a server started by the public start(); state digest before/after every request",
           "checker_cmd": "tlc AuthGate.tla ; vh auth"}
    rc = v.finish()
    common.write_evidence("C12", tier, seed, "model_checking", cov,
                          ["HTTP only (the WebSocket upgrade path of the same port is not exercised)",
                           "execution of brc20_commitToDatabase / brc20_initialise as a notification is unobservable from outside"],
                          time.time() - t0, len(v.new))
    return rc
