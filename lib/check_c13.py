"""C13 - versioned tables behave like a map with a 10-block undo window.

(i)  VersionedKey.tla: invariants by TLC (W=2 closure, W=10 sparse block set), and EVERY transition of the
     data type's state graph (W=10) replayed on the real BlockHistoryCacheData; dense histories by simulation.
(ii) VersionedTable.tla: table-level schedules on the real BlockCachedDatabase / BlockDatabase (see vt part)."""
import json, os, time
import common
from common import tlc, Verdict, ToolError, OUT

INVS = "TypeOK LatestIsTruth RetainedIsTruth RollbackInWindow Bounded NeverSilentlyWrong"


def run(tier, seed):
    t0 = time.time()
    vh = common.build_harness()
    v = Verdict("C13")
    cov = {"checker_cmd": "tlc VersionedKey.tla (MC_VK_small, MC_VK_10, Edges_VK_10, Sim_VK_dense) + vh vk-edges ; apalache-mc check VKInd.tla (inductive invariant)",
           "configs": {}}
    states = trans = 0

    # ---- design level: invariants
    mcs = [("MC_VK_small.cfg", 8, 600)]
    if tier == "thorough":
        mcs.append(("MC_VK_10.cfg", 12, 1800))
    for cfg, workers, to in mcs:
        r = tlc("VersionedKey.tla", cfg, "vk_" + cfg, workers=workers, timeout=to)
        cov["configs"][cfg] = {"distinct": r["distinct"], "generated": r["generated"], "depth": r["depth"]}
        states += r["distinct"]
        trans += r["generated"]
        if r["violated"]:
            v.report("model:%s:%s" % (cfg, r["violated"]),
                     "VersionedKey.tla violates %s under %s" % (r["violated"], cfg),
                     {"tlc": common.tlc_tail(r, 80)})
        elif not r["ok"]:
            raise ToolError("TLC failed on %s:\n%s" % (cfg, common.tlc_tail(r)))

    # ---- unbounded in the reachable/unreachable sense: the inductive invariant over the dense block range (Apalache)
    cinit = "ConstSmall" if tier == "quick" else "ConstReal"
    ind = {}
    for label, init, length in (("base", "Init", 0), ("step", "IndInit", 1)):
        a = common.apalache("VKInd.tla", cinit, init, "IndInv", length, "vkind_" + label, timeout=600 if tier == "quick" else 3300)
        ind[label] = {"wall_s": round(a["wall"], 1), "ok": a["ok"]}
        if a["violated"]:
            v.report("model:VKInd:%s" % label, "VKInd.tla: IndInv is not inductive (%s, %s)" % (label, cinit), {"apalache": a["out"][-3000:]})
        elif not a["ok"]:
            raise ToolError("apalache failed on VKInd (%s):\n%s" % (label, a["out"][-2500:]))
    cov["configs"]["VKInd(" + cinit + ")"] = ind

    # ---- every transition of the data type on the real type
    edges_total = 0
    samples = []
    runs = [("Edges_VK_10.cfg", None, 900, 8), ("Edges_VK_full.cfg", None, 900, 8)]
    sim_n = 1500 if tier == "quick" else 20000
    runs.append(("Sim_VK_dense.cfg", "num=%d" % sim_n, 1800, 4))
    for cfg, sim, to, workers in runs:
        edges = os.path.join(OUT, "vk_edges_%s.txt" % cfg)
        r = tlc("VersionedKey.tla", cfg, "vke_" + cfg, workers=workers, timeout=to, stdout_path=edges,
                simulate=sim, extra=["-depth", "70"] if sim else None, seed=seed if sim else None)
        cov["configs"][cfg] = {"distinct": r["distinct"], "generated": r["generated"]}
        if r["violated"]:
            v.report("model:%s:%s" % (cfg, r["violated"]),
                     "VersionedKey.tla violates %s under %s" % (r["violated"], cfg), {"tlc": common.tlc_tail(r, 80)})
        elif not r["ok"]:
            raise ToolError("TLC failed on %s:\n%s" % (cfg, common.tlc_tail(r)))
        if not sim:
            states += r["distinct"]
            trans += r["generated"]
        rep = os.path.join(OUT, "vk_report_%s.json" % cfg)
        p = common.run_vh(["vk-edges", edges, 10, rep], timeout=1800)
        if p.returncode == 2:
            raise ToolError("vk-edges failed: %s" % p.stderr[-2000:])
        rj = json.load(open(rep))
        edges_total += rj["edges"]
        cov["configs"][cfg].update({"edges_replayed": rj["edges"], "by_op": rj["by_op"],
                                    "panic_edges": rj["panic_edges"],
                                    "post_state_identical_to_model": rj["post_state_identical_to_model"]})
        samples += rj["samples"][:2]
        for viol in rj["violations"]:
            e = json.loads(viol["edge"])
            sig = "vk-edge:%s:%s" % (e["act"]["op"], viol["why"].split(" ")[0])
            v.report(sig, "BlockHistoryCacheData: %s on edge %s" % (viol["why"], viol["edge"][:300]),
                     {"kind": "vk-edge", "edge": e, "why": viol["why"]})
        os.remove(edges)

    # ---- (ii) table level: the mechanism refines the plain map (VersionedTable.tla, exhaustive in a small scope) ...
    vt_cfg = "MC_VT_quick.cfg" if tier == "quick" else "MC_VT.cfg"
    r = tlc("VersionedTable.tla", vt_cfg, "vt_" + vt_cfg, workers=10, timeout=3000, xmx="16g")
    cov["configs"][vt_cfg] = {"distinct": r["distinct"], "generated": r["generated"], "depth": r["depth"]}
    states += r["distinct"]
    trans += r["generated"]
    if r["violated"]:
        v.report("model:%s:%s" % (vt_cfg, r["violated"]), "VersionedTable.tla violates %s under %s" % (r["violated"], vt_cfg),
                 {"tlc": common.tlc_tail(r, 80)})
    elif not r["ok"]:
        raise ToolError("TLC failed on %s:\n%s" % (vt_cfg, common.tlc_tail(r)))
    # ... and schedules of the plain-map model (TableRef.tla, W = 10) on the real BlockCachedDatabase
    nsched = 300 if tier == "quick" else 5000
    raw = os.path.join(OUT, "tableref.txt")
    sp = os.path.join(OUT, "table_sched.ndjson")
    n = 0
    with open(sp, "w") as f:
        # the second configuration (Deep): few keys, idle stretches longer than the window, repeated rollbacks
        for cfg, depth, share in (("Sim_TableRef.cfg", 70, 4), ("Sim_TableRef_deep.cfg", 130, 4)):
            r = tlc("TableRef.tla", cfg, "tableref", workers=4, timeout=900, simulate="num=%d" % (nsched // share), seed=seed,
                    extra=["-depth", str(depth)], stdout_path=raw)
            if r["error"] or r["violated"]:
                raise ToolError("TableRef generation failed:\n" + common.tlc_tail(r))
            for line in open(raw):
                if line.startswith('<<"SCHED", '):
                    steps = json.loads(json.loads(line.strip()[len('<<"SCHED", '):-2]))
                    if steps:
                        n += 1
                        f.write(json.dumps({"run": n, "steps": steps}) + "\n")
            os.remove(raw)
    rep = os.path.join(OUT, "table_report.json")
    p = common.run_vh(["table", sp, rep], timeout=3000)
    if p.returncode == 2:
        raise ToolError("vh table failed: " + p.stderr[-1500:])
    tj = json.load(open(rep))
    cov["table_schedules"] = {k: tj[k] for k in ("runs", "steps", "crash_steps", "crashes_that_hit_a_write")}
    edges_total += tj["runs"]
    samples += tj["samples"][:1]
    for viol in tj["violations"]:
        op = viol["op"].get("op")
        v.report("table:%s:%s" % (op, viol["why"].split("(")[0].split(" ")[0]), "BlockCachedDatabase: %s at step %d (%s)" % (viol["why"][:300], viol["step"], json.dumps(viol["op"])[:120]),
                 {"kind": "table", "schedule": viol["schedule"], "step": viol["step"], "why": viol["why"]})

    cov.update({"states": max(states, 1), "transitions": max(trans, 1),
                "traces_validated_against_impl": edges_total,
                "samples": samples or ["none"],
                "exhaustive": True,
                "explanation": "every edge of the W=10 state graph of the data type (sparse block set with gaps "
                               "of 9/10/11) was executed on the real type from an injected source state; dense "
                               "histories (31 consecutive blocks) by simulation"})
    rc = v.finish()
    common.write_evidence("C13", tier, seed, "model_checking", cov,
                          ["TLC; CommunityModules Json", "the crate's primitive encoders (u32/u64/Option) used to "
                           "inject source states", "value alphabet {None,1,2}: the type is parametric in V"],
                          time.time() - t0, len(v.new))
    return rc


def replay(path):
    vh = common.build_harness()
    obj = json.load(open(path))
    rp = obj["replay"]
    if rp.get("kind") == "vk-edge":
        tmp = os.path.join(OUT, "replay_edge.txt")
        with open(tmp, "w") as f:
            f.write('<<"EDGE", %s>>\n' % json.dumps(json.dumps(rp["edge"])))
        rep = os.path.join(OUT, "replay_edge.json")
        p = common.run_vh(["vk-edges", tmp, 10, rep])
        print(open(rep).read())
        return p.returncode
    if rp.get("kind") == "table":
        sp = os.path.join(OUT, "replay_table.ndjson")
        open(sp, "w").write(json.dumps({"run": 1, "steps": rp["schedule"]}) + "\n")
        rep = os.path.join(OUT, "replay_table.json")
        p = common.run_vh(["table", sp, rep])
        print(open(rep).read()[:3000])
        return p.returncode
    print(json.dumps(obj, indent=1)[:4000])
    return 0
