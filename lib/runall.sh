#!/bin/bash
# runs every claimed check (quick tier) on the current tree; prints one line per check
cd /verif
for c in $(python3 -c "import json; print(' '.join(x['property_id'] for x in json.load(open('MANIFEST.json'))['checks']))"); do
  s=$(date +%s); ./check $c --tier ${1:-quick} > /tmp/runall_$c.log 2>&1; rc=$?; e=$(date +%s)
  echo "$c exit=$rc $((e-s))s viol=$(grep -c '^VIOLATION' /tmp/runall_$c.log) known=$(grep -c '^KNOWN-FINDING' /tmp/runall_$c.log)"
done
