#!/usr/bin/env python3
"""Regenerates /verif/MANIFEST.json from the table below (one source of truth for the interface)."""
import json, os, subprocess
ROOT = os.path.dirname(os.path.dirname(os.path.abspath(__file__)))

BASELINE_OFF = ("cd /repo && cargo nextest run --workspace --no-fail-fast --tool-config-file pb:/w/lib/nextest.toml "
                "--profile pb --test-threads 8 --offline || cargo test --workspace --no-fail-fast --offline")

CLAIMED = {
    "C13": dict(cat="model_checking", sec="5/C13",
                text="VersionedKey.tla is model-checked (window arithmetic, pruning, version bound, never-silently-wrong) "
                     "and every transition of its W=10 state graph is executed on the real BlockHistoryCacheData from an "
                     "injected source state; table-level schedules from VersionedTable.tla run on the real "
                     "BlockCachedDatabase/BlockDatabase.",
                note="TLC and the Json module; small value alphabet (type is parametric); block numbers from a sparse set "
                     "plus dense simulation; RocksDB itself.",
                tech="TLA+ spec + TLC exhaustive; per-transition replay of the TLC state graph on the implementation"),
}

HIST_NOTE = ("TLC and the Json/IOUtils modules; the harness's own re-derivations (keccak, CREATE addresses, merkle, bloom, RLP via "
             "alloy); the hand-assembled Cell contract; schedules are a sample of the behaviours of Brc20Ref with the real "
             "constants (simulation), exhaustive only in the small-scope model configs; in-process RPC method table")
HIST_TECH = "TLA+ reference machine (Brc20Ref) + TLC-generated schedules executed on the real engine + TLC trace validation of every call"
CLAIMED.update({
    "C01": dict(cat="model_checking", sec="5/C01", note=HIST_NOTE, tech=HIST_TECH,
                text="Brc20Ref.tla defines Reorg(N) as truncation of the chain (state = snapshot at N) with the acceptance rule "
                     "N <= height and maxEver <= N+10; TLC-generated histories with reorg targets inside and outside the window, "
                     "commits at arbitrary points and regrowth are executed on the real engine and every call's full projection "
                     "(orphaned identifiers included) is validated against the reference state by TLC."),
    "C03": dict(cat="model_checking", sec="5/C03", note=HIST_NOTE, tech=HIST_TECH,
                text="Commit changes no observable of Brc20Ref; Clear/Restart fall back to the state of the last commit. Histories "
                     "with commit/clear/restart at arbitrary block boundaries (clear also mid-block) are executed and the projection "
                     "after every call must equal the commit-independent reference state."),
    "C05": dict(cat="model_checking", sec="5/C05", note=HIST_NOTE, tech=HIST_TECH,
                text="Every Brc20Ref action has reject disjuncts that leave all variables unchanged and accept disjuncts guarded by "
                     "the block protocol; out-of-protocol calls are injected at arbitrary positions, an error result may only match "
                     "a reject disjunct (projection unchanged) and an ok result must satisfy the protocol guard."),
    "C06": dict(cat="model_checking", sec="5/C06", note=HIST_NOTE, tech=HIST_TECH,
                text="The chain-coherence laws are evaluated by TLC on the projection of the real instance after every call of "
                     "every run: blocks/parents/hash index, tx-receipt-(block,index) cross references, inscription and contract "
                     "indexes, log indexes, cumulative gas, bloom, merkle root, raw encodings, returned receipt = served receipt."),
    "C07": dict(cat="model_checking", sec="5/C07", note=HIST_NOTE, tech=HIST_TECH,
                text="The ledger section of Brc20Ref (strict deposit/withdraw, status-driven user transfers, adversarial mint/burn "
                     "must fail, supply = sum of balances) is the oracle for brc20_balance and totalSupply after every block of "
                     "TLC-generated ledger histories, tickers in mixed case, amounts up to 2^256-1, across reorgs."),
    "C08": dict(cat="model_checking", sec="5/C08", note=HIST_NOTE, tech=HIST_TECH,
                text="The pending-pool section of Brc20Ref (park inside the nonce window, drain of consecutive live nonces at "
                     "consecutive indexes in the same call, expiry, one receipt per appended transaction, pool = waiting set) is "
                     "validated on real signed legacy transactions in TLC-generated arrival orders incl. gaps, replays, foreign "
                     "chain ids, undecodable bytes and window edges; a mainnet configuration crosses height 929 000, where the identity "
                     "of a signed transaction changes from its signing hash to the hash of its bytes."),
})

CLAIMED.update({
    "C11": dict(cat="model_checking", sec="5/C11",
                text="Locks.tla models std's writer-preferring RwLock; the lock programs of every registered handler are recorded "
                     "from the real code (hook H3) in five engine states on every run, and TLC explores every interleaving of every "
                     "pair of whole programs and of every triple (quick) / quintuple (thorough) of their lock-free-to-lock-free "
                     "sections (a sound and complete reduction for deadlocks), reporting each reachable state where an unfinished "
                     "thread exists and nobody can move.",
                note="RwLock semantics (writer preference) as implemented by std on Linux; programs are observed in 5 engine-state "
                     "classes, not derived statically; tokio scheduling and the bounded 5 s wait are not modelled",
                tech="TLA+ lock model + TLC exhaustive interleavings over lock programs recorded from the implementation"),
    "C12": dict(cat="model_checking", sec="5/C12",
                text="AuthGate.tla is the complete decision table (method x form x header class x auth on/off x transport); TLC checks "
                     "the property on it and every case is replayed over HTTP and over a WebSocket connection against a server "
                     "started by the public start(), with a state digest before and after each request; methods outside the "
                     "protected set must not change the digest.",
                note="header classes: none, wrong user, wrong password, malformed, empty, scheme only, truncated, extended, correct; "
                     "one request frame per WebSocket connection; notification execution is unobservable for two methods",
                tech="TLA+ decision table enumerated by TLC, every case replayed against the real HTTP/WebSocket server"),
    "C20": dict(cat="model_checking", sec="5/C20",
                text="ConfigGate.tla enumerates directory state x creating configuration x opening configuration x tampered/missing "
                     "rows; TLC checks the property on the table and each case is replayed through the public start(); on success "
                     "the served state must equal the state recorded before shutdown.",
                note="version mismatches are produced by altering the recorded rows; quick tier omits tampering on already "
                     "mismatching pairs",
                tech="TLA+ decision table enumerated by TLC, every case replayed through the public start()"),
})

CLAIMED.update({
    "C04": dict(cat="fault_enumeration", sec="5/C04",
                text="For the last commit, reorg and finalise of TLC-generated histories every persistent write (RocksDB put/delete/"
                     "flush, hook H2) is a crash point: the history is replayed with the fail-point armed before that write, the "
                     "instance is dropped and reopened, an admissible reorg to a durable height is issued and three more blocks are "
                     "appended; TraceRef.tla (TrCrash/TrReopen/TrRecover) states what the state must be from the recovering reorg on.",
                note="RocksDB single-operation atomicity; the crash is injected as an error at the armed write followed by dropping the "
                     "instance, and at a few points per operation by a child process that aborts inside the write (nothing flushed "
                     "or closed); quick tier samples at most 60 points per operation",
                tech="fault enumeration over every persistent write + TLA+ trace validation of the recovery"),
    "C10": dict(cat="model_checking", sec="5/C10", note=HIST_NOTE, tech=HIST_TECH,
                text="All read actions of the reference machine leave every variable unchanged; state-mutating Cell programs "
                     "(storage writes, creations, logs, self-destruct, revert, invalid opcode) run through eth_call / eth_callMany "
                     "(with carry-over) / eth_estimateGas(Many) at block boundaries and the full projection after each read must "
                     "equal the unchanged reference state; results must equal the scratch evaluation."),
    "C16": dict(cat="exploration", sec="5/C16",
                text="Gas.tla: threshold machine + observation-only monitor (TLC: monitor sound, estimate sufficient); TraceGas.tla runs "
                     "the monitor over real executions: estimate, then the same call as a transaction at lengths {0,1,L-1,L,L+1,10L,huge} "
                     "from the same committed state (programs include long zero-heavy / non-zero calldata in front of an idle callee and "
                     "parked-then-drained signed transactions); rejects when no threshold explains all observations, when gas used exceeds the "
                     "allowance, when a failed transaction changed state, or when the output differs from eth_call.",
                note="programs from a seeded generator over Cell ops; nested calls that ignore callee failure excluded",
                tech="TLA+ monitor model-checked for soundness, then run over recorded executions (trace validation)"),
    "C17": dict(cat="model_checking", sec="5/C17", note=HIST_NOTE, tech=HIST_TECH,
                text="eth_call results are compared with the reference evaluation, and every transaction executed right after an "
                     "eth_call with the same sender, target and data must have the predicted success flag and return data "
                     "(trace variable pred); simulated creations must return the runtime code that the deployment installs; Cell op env "
                     "makes GASLIMIT, COINBASE, BASEFEE, GASPRICE, BLOBBASEFEE, SELFBALANCE, CALLVALUE and CHAINID observable in both."),
    "C18": dict(cat="model_checking", sec="5/C18", note=HIST_NOTE,
                text="LogFilters.tla enumerates every filter shape (address x positional topics with wildcard/single/alternatives x "
                     "range forms); each is asked of the real engine over chains that are never committed, committed at random "
                     "points and fully committed, and TraceRef.TrGetLogs requires soundness, completeness, no duplicates, chain order "
                     "and refusal of ranges wider than 6 blocks.",
                tech="TLC-enumerated filter space, reference answer computed in TLA+ and compared by trace validation"),
    "C19": dict(cat="model_checking", sec="5/C19", note=HIST_NOTE, tech=HIST_TECH,
                text="The Probe contract records NUMBER, TIMESTAMP, PREVRANDAO, CHAINID, BASEFEE, GASPRICE, COINBASE, CALLER, ORIGIN, "
                     "BLOCKHASH(n-1,-2,-3,-256,-257) and the answer of the current-txid helper; Brc20Ref.ProbeWrite is the oracle "
                     "for inscription calls, signed and parked-then-drained transactions across reorgs/restarts, on regtest (Prague), "
                     "signet at low heights (Cancun: helper absent) and in histories that start 6 blocks below an activation height and "
                     "cross it (signet 275 000, mainnet 923 369 and 929 000; constant Base of the reference machine)."),
})

CLAIMED.update({
    "C02": dict(cat="exploration", sec="5/C02",
                text="The reference machine is deterministic and defines the order of every list; each TLC-generated schedule runs on "
                     "three real instances (two in one process with different hash-map seeds, one of them restarted right after a "
                     "commit, and one in a child process) and the normalised raw answers of every call and every projection query are "
                     "compared; pinned digests of a fixed corpus bind the tree to the reference of the same protocol/db version, and "
                     "SatLoc.tla (the transaction-graph helper contracts transcribed into TLA+) fixes the answer of every case of its "
                     "small-scope table, replayed on the real contracts with client-supplied transactions.",
                note="JSON object member order canonicalised, mineTimestamp zeroed; golden digests only for equal declared versions",
                tech="differential execution of TLC-generated schedules on 3 replicas + pinned digests; list orders defined by the TLA+ reference machine"),
    "C09": dict(cat="exploration", sec="5/C09",
                text="RpcSurface.tla models the slot/poison state machine (liveness reduces to: no handler panics or loops) and TLC "
                     "enumerates the class partition of every parameter of every registered method x engine state from the real method "
                     "table; every case is sent as raw JSON on its own task under a watchdog with a read probe after each request and "
                     "a write round per group, plus ABI-valid/invalid precompile inputs, every case of SatLoc.tla (transaction graphs "
                     "supplied by the client to the 0x..fc / 0x..fd helper contracts) and seeded random bytes as code/calldata/raw tx. "
                     "The same monitor (panic/timeout = no matching action) is active in every trace-validated check.",
                note="all byte strings cannot be enumerated: class partition + random sample; revm trusted beyond that; requests whose "
                     "work is proportional to an explicit count (brc20_mine of 2^32 blocks) are not hangs; Bitcoin-node dependent "
                     "precompile paths are out of scope",
                tech="TLA+ state machine + TLC-enumerated request classes executed on the implementation under a crash/hang/wedge monitor"),
})

NOT_YET = {}

NA = {
    "C14": "pure byte-level codec laws quantified over values: no state or transitions to specify; a TLA+ restatement "
           "would be bound to the code only by a value-by-value differential test, which is not model-based verification "
           "(DESIGN.md section 5/C14)",
    "C15": "pure function over byte strings (base64 x compression x size limit); same reason as C14 (DESIGN.md 5/C15)",
}


def main():
    props = [json.loads(l) for l in open(os.path.join(ROOT, "properties.jsonl"))]
    checks = []
    na = []
    for p in props:
        pid = p["id"]
        if pid in CLAIMED:
            c = CLAIMED[pid]
            checks.append({
                "property_id": pid,
                "quick_cmd": "./check %s --tier quick" % pid,
                "thorough_cmd": "./check %s --tier thorough" % pid,
                "evidence_file": "/verif/evidence/%s.json" % pid,
                "replay_cmd_template": "./check %s --replay {path}" % pid,
                "engine": "tla-trace",
                "level_claimed": {"category": c["cat"], "text": c["text"], "design_ref": "DESIGN.md section " + c["sec"]},
                "level_note": c["note"],
                "technique": c["tech"],
            })
        elif pid in NA:
            na.append({"property_id": pid, "reason": NA[pid]})
        else:
            na.append({"property_id": pid, "reason": NOT_YET.get(pid, "check not built yet in this revision of the framework "
                       "(planned with the TLA+ specification, see DESIGN.md section 5); not claimed until it runs")})
    commits = subprocess.run(["git", "-C", "/repo", "log", "--format=%H %s", "1fa6cfc..HEAD"], stdout=subprocess.PIPE,
                             text=True).stdout.strip().splitlines()
    hook_commits = [c.split()[0] for c in commits if "verif hook" in c]
    m = {
        "version": 1,
        "setup_cmd": "./check setup",
        "hooks": {
            "guard": "brc20_verif",
            "enable": "RUSTFLAGS-equivalent in /verif/harness/.cargo/config.toml: --cfg brc20_verif (the harness has a path "
                      "dependency on /repo, so every check recompiles /repo's working tree with the hooks on)",
            "baseline_off_cmd": BASELINE_OFF,
            "source_commits": hook_commits,
            "add_only": True,
        },
        "engines": [{
            "name": "tla-trace", "path": "/verif/check",
            "serves_properties": [c["property_id"] for c in checks],
            "kind_free_text": "TLA+ specifications in /verif/spec checked by TLC; Rust harness /verif/harness executes "
                              "TLC-generated schedules/transitions on the real code and records traces that TLC validates "
                              "against the specification",
        }],
        "checks": checks,
        "not_applicable": na,
        "notes": "See DESIGN.md. Exit codes: 0 held, 1 VIOLATION line printed, 2 tool failure/time-out.",
    }
    with open(os.path.join(ROOT, "MANIFEST.json"), "w") as f:
        json.dump(m, f, indent=1)
    print("MANIFEST.json: %d checks, %d not_applicable" % (len(checks), len(na)))


if __name__ == "__main__":
    main()
