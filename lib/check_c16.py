"""C16 - gas allowance follows inscription size; estimates are sufficient.
Gas.tla: the threshold machine and the observation-only monitor (TLC: the monitor is sound); TraceGas.tla runs the monitor
over real executions: estimate, then the same call as a transaction at lengths {0,1,L-1,L,L+1,10L,huge}."""
import concurrent.futures, json, os, time
import common, tracecheck
from common import Verdict, ToolError, OUT


def run(tier, seed):
    t0 = time.time()
    common.build_harness()
    v = Verdict("C16")
    m = common.tlc("Gas.tla", "MC_Gas.cfg", "mc_gas", workers=4, timeout=600)
    if m["violated"]:
        v.report("model:" + m["violated"], "Gas.tla violates " + m["violated"], {"tlc": common.tlc_tail(m, 60)})
    elif not m["ok"]:
        raise ToolError("TLC failed on Gas.tla:\n" + common.tlc_tail(m))
    nprog = 60 if tier == "quick" else 1000
    shards = 4 if tier == "quick" else 10
    per = nprog // shards

    def one(k):
        tp = os.path.join(OUT, "gas_%d.ndjson" % k)
        p = common.run_vh(["gas", tp, seed * 100 + k, per], timeout=3000)
        if p.returncode != 0:
            raise ToolError("vh gas failed: " + p.stderr[-1500:])
        return tp, json.loads(p.stdout.strip().splitlines()[-1])

    traces, attempts = [], 0
    with concurrent.futures.ThreadPoolExecutor(max_workers=shards) as ex:
        for tp, st in ex.map(one, range(shards)):
            traces.append(tp)
            attempts += st["attempts"]
    validated = 0
    states = 0
    samples = []
    for tp in traces:
        lines = open(tp).read().splitlines()
        samples.append([json.loads(x) for x in lines[9:13]])
        while lines:
            cur = tp + ".cur"
            open(cur, "w").write("\n".join(lines) + "\n")
            rej, r = tracecheck.tlc_validate(cur, "gas", cfg="TraceGas.cfg", module="TraceGas.tla")
            states += r["distinct"]
            os.remove(cur)
            if rej is None:
                validated += len(lines)
                break
            k = rej["line"] - 1
            ev = json.loads(lines[k])
            start = k
            while start > 0 and '"ev":"GasBegin"' not in lines[start]:
                start -= 1
            end = k + 1
            while end < len(lines) and '"ev":"GasBegin"' not in lines[end]:
                end += 1
            prog = json.loads(lines[start])
            sig = "gas:%s:%s" % (ev.get("ev"), "+".join(sorted(rej["labels"])))
            v.report(sig, "%s for program %s: %s" % (sig, json.dumps(prog.get("ops"))[:200], json.dumps(ev)[:300]),
                     {"kind": "gas", "program": prog, "events": [json.loads(x) for x in lines[start:end]], "labels": rej["labels"]})
            validated += k - start
            lines = lines[:start] + lines[end:]
        os.remove(tp)
    cov = {"evaluations": attempts, "distinct_nontrivial": max(2, nprog), "programs": nprog,
           "rule": "programs are Cell op lists (13 fixed + seeded random: storage, gas-burning loops, creations, logs, precompile "
                   "calls); each is estimated and then executed at 6-7 inscription lengths around the estimate from the same "
                   "committed state; non-trivial = a program with at least one failing and one succeeding length",
           "samples": samples[:2], "events_validated": validated, "model": {"distinct": m["distinct"], "generated": m["generated"]},
           "tlc_states": states + m["distinct"],
           "checker_cmd": "tlc Gas.tla (MC_Gas.cfg) ; vh gas ; tlc TraceGas.tla"}
    rc = v.finish()
    common.write_evidence("C16", tier, seed, "exploration", cov,
                          ["programs do not inspect remaining gas, time or randomness; nested calls that ignore the callee's failure "
                           "are excluded (63/64 forwarding makes their outcome gas-dependent)", "parked transactions' rounded allowance is not covered"],
                          time.time() - t0, len(v.new))
    return rc


def replay(path):
    print(open(path).read()[:4000])
    return 0
