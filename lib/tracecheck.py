"""Spec -> impl -> spec loop shared by the history-shaped properties:
   TLC (GenRef.tla, -simulate) generates schedules; the harness executes them on the real engine;
   TLC (TraceRef.tla) validates the recorded traces.  Rejections are classified and attributed."""
import json, os, re, subprocess, time, concurrent.futures
import common
from common import OUT, SPEC, ToolError, log

GEN_CONSTS = """SPECIFICATION GSpec
CONSTANTS
  W = 10
  NonceWin = 10
  AgeWin = 10
  MAXV = 1000000000
  PragueFrom = %(prague)d
  Base = %(base)d
  Senders = {%(senders)s}
  Signers = {%(signers)s}
  MaxLen = %(maxlen)d
  Focus = "%(focus)s"
INVARIANTS GenInv
CHECK_DEADLOCK FALSE
"""


def gen_schedules(name, focus, n, seed, maxlen=40, senders=2, signers=2, workers=4, prague=0, base=0):
    """n schedules of `maxlen` calls from the reference machine by TLC simulation."""
    cfg = "_gen_%s.cfg" % name
    with open(os.path.join(SPEC, cfg), "w") as f:
        f.write(GEN_CONSTS % {"senders": ", ".join('"s%d"' % i for i in range(1, senders + 1)),
                              "signers": ", ".join('"k%d"' % i for i in range(1, signers + 1)),
                              "maxlen": maxlen, "focus": focus, "prague": prague, "base": base})
    raw = os.path.join(OUT, "gen_%s.txt" % name)
    per = (n + workers - 1) // workers
    r = common.tlc("GenRef.tla", cfg, "gen_" + name, workers=workers, timeout=300, simulate="num=%d" % per,
                   seed=seed, extra=["-depth", str(maxlen + 5)], stdout_path=raw, xss="512m")
    os.remove(os.path.join(SPEC, cfg))
    if r["violated"] or r["error"]:
        raise ToolError("generator spec failed: %s\n%s" % (r["violated"] or r["error"], common.tlc_tail(r)))
    scheds = []
    with open(raw) as f:
        for line in f:
            if line.startswith('<<"SCHED", '):
                lit = line.strip()[len('<<"SCHED", '):-2]
                steps = json.loads(json.loads(lit))
                scheds.append(steps)
                if len(scheds) >= n:
                    break
    os.remove(raw)
    return scheds, r


BASE = [0]     # > 0: every run starts from BASE[0] mined and committed empty blocks (fork-crossing configurations)


def write_schedules(path, scheds, first_run=1, light=False):
    with open(path, "w") as f:
        for i, steps in enumerate(scheds):
            f.write(json.dumps({"run": first_run + i, "steps": steps, "light": light or BASE[0] > 0, "base": BASE[0]}) + "\n")


def play(name, scheds, shards=8, net="regtest", traces="on", light=False, timeout=3600):
    """Execute schedules on the real engine (parallel harness processes); returns trace paths + stats."""
    common.build_harness()
    shards = max(1, min(shards, len(scheds)))
    chunks = [[] for _ in range(shards)]
    for i, s in enumerate(scheds):
        chunks[i % shards].append((i + 1, s))
    jobs = []
    for k, chunk in enumerate(chunks):
        sp = os.path.join(OUT, "sched_%s_%d.ndjson" % (name, k))
        tp = os.path.join(OUT, "trace_%s_%d.ndjson" % (name, k))
        with open(sp, "w") as f:
            for run, steps in chunk:
                f.write(json.dumps({"run": run, "steps": steps, "light": light or BASE[0] > 0, "base": BASE[0]}) + "\n")
        jobs.append((sp, tp))

    def one(job):
        sp, tp = job
        p = common.run_vh(["play", sp, tp, net, traces], timeout=timeout)
        if p.returncode != 0:
            raise ToolError("vh play failed: %s" % p.stderr[-2000:])
        return json.loads(p.stdout.strip().splitlines()[-1])

    stats = {"runs": 0, "events": 0, "rpc_calls": 0}
    with concurrent.futures.ThreadPoolExecutor(max_workers=shards) as ex:
        for st in ex.map(one, jobs):
            for k in stats:
                stats[k] += st[k]
    return [j[1] for j in jobs], [j[0] for j in jobs], stats


VALIDATE_CFG = ["TraceRef.cfg"]

MIS = re.compile(r'^<<"MISMATCH", (\d+), "([^"]+)">>')
FLAG = re.compile(r'^<<"FLAG", (\d+), "([^"]+)">>')
REJ = re.compile(r'^<<"REJECTED", (\d+), ')


def tlc_validate(trace, name, cfg=None, module="TraceRef.tla"):
    cfg = cfg or VALIDATE_CFG[0]
    r = common.tlc(module, cfg, "tv_" + name, workers=1, timeout=3600, env={"TRACE": trace}, deque=True,
                   xss="1g", xmx="6g")
    out = r["out"]
    if "REJECTED" not in out and r["ok"]:
        return None, r
    m = None
    for line in out.splitlines():
        mm = REJ.match(line)
        if mm:
            m = int(mm.group(1))
    if m is None:
        inv = r["violated"]
        if inv:
            # an invariant of the reference machine failed on the real execution: the diameter tells where
            d = re.search(r"(\d+) states generated", out)
            return {"line": int(d.group(1)) if d else 0, "labels": ["invariant:" + inv], "flags": [], "items": ""}, r
        raise ToolError("trace validation failed without a verdict:\n" + common.tlc_tail(r, 60))
    labels, flags = [], []
    for line in out.splitlines():
        mm = MIS.match(line)
        if mm and int(mm.group(1)) == m:
            labels.append(mm.group(2))
        mm = FLAG.match(line)
        if mm and int(mm.group(1)) == m:
            flags.append(mm.group(2))
    items = ""
    i = out.find('<< "ITEM"')
    if i >= 0:
        items = out[i:i + 3000]
    return {"line": m, "labels": labels or ["no-disjunct"], "flags": flags, "items": items}, r


def attribute(ev, labels, flags, after_crash=False):
    """Which properties a rejection is evidence against."""
    props = set()
    kind = ev.get("ev")
    res = ev.get("res")
    if after_crash:
        return {"C04"}
    if ev.get("sigdup") and res not in ("panic", "timeout"):
        # legacy transaction identity on mainnet below 929 000 (known finding D17): two signers, one hash; everything this run
        # shows from here on is a lookup pointing at the wrong one of the two
        return {"C06"}
    if res in ("panic", "timeout"):
        props.add("C09")
    if kind == "Reorg":
        props.add("C01")
    if kind in ("Commit", "Clear", "Restart"):
        props.add("C03")
    if res == "err":
        props.add("C05")
    if kind == "Transact":
        props.add("C08")
    if kind in ("EthCall", "Estimate", "CallMany"):
        props.add("C10")
        if any(l in ("eth_call-result", "callmany-ok", "callmany-outs", "callmany-failidx", "estimate-result") for l in labels):
            props.add("C17")
    if kind == "GetLogs":
        props.add("C18")
    if "predicted-by-eth_call" in labels or "tx-output" in labels:
        props.add("C17")
    tx = ev.get("tx") or {}
    if isinstance(tx, dict) and isinstance(tx.get("lc"), dict) and tx["lc"].get("fn") != "none":
        props.add("C07")
    for l in labels:
        if l in ("proto", "reorg-accepted"):
            props.add("C05")
        if l in ("reorg-accepted", "reorg-refused"):
            props.add("C01")
        if l in ("txs", "txs-cover", "byidx", "insc", "cinsc", "blocks", "blocks-cover", "byhash", "height", "flags",
                 "fresh-id", "rc-links", "returned=served", "receipt", "init-rc"):
            props.add("C06")
        if l in ("logs",):
            props.update(("C18", "C06"))
        if l in ("pool", "pool-dup", "receipt-count", "rc-ids", "next-nonce", "ignorable", "own-chain") or l.startswith("invariant:TraceInv"):
            props.add("C08")
        if l in ("ledger-bal", "ledger-supply"):
            props.add("C07")
        if l == "probe":
            props.add("C19")
        if l in ("nonces", "cells", "code"):
            props.update(("C06",) if kind not in ("Reorg", "Commit", "Clear", "Restart") else ())
    if not props:
        props.add("C06")
    return props


def signature(ev, labels, flags, prior=None):
    if ev.get("sigdup") and ev.get("res") not in ("panic", "timeout"):
        return "legacy-id:sighash-collision"
    q = ""
    tx = ev.get("tx")
    if isinstance(tx, dict):
        q = ":gas=" + str(tx.get("gas"))
    if "fresh-id" in labels and prior is not None:
        # the same transaction hash was handed out before in this run: by which kind of transaction?
        rid = (ev.get("rc") or {}).get("id") if isinstance(ev.get("rc"), dict) else ev.get("id")
        for pe in reversed(prior):
            rc = pe.get("rc")
            if isinstance(rc, dict) and rc.get("id") == rid:
                ptx = pe.get("tx") or {}
                if ptx.get("gas") == "tiny":
                    q = ":dup-of-invalid-tx"
                break
    if flags:
        return "%s:flags:%s" % (ev.get("ev"), "+".join(sorted(flags)))
    return "%s:%s:%s%s" % (ev.get("ev"), ev.get("res"), "+".join(sorted(labels)), q)


def validate_traces(name, traces, scheds_by_run, max_rounds=40):
    """Validate; on a rejection record it, cut the rest of that run and go on.
    Returns (rejections, events_validated, runs_validated, tlc_states)."""
    rejections = []
    validated = 0
    runs_ok = 0
    states = 0
    for ti, trace in enumerate(traces):
        lines = open(trace).read().splitlines()
        rounds = 0
        while True:
            rounds += 1
            cur = os.path.join(OUT, "tv_%s_%d.ndjson" % (name, ti))
            with open(cur, "w") as f:
                f.write("\n".join(lines) + ("\n" if lines else ""))
            if not lines:
                break
            rej, r = tlc_validate(cur, "%s_%d" % (name, ti))
            states += r["distinct"]
            if rej is None:
                validated += len(lines)
                runs_ok += sum(1 for l in lines if '"ev":"Reset"' in l)
                break
            k = rej["line"] - 1          # 0-based index of the rejected event
            if k < 0 or k >= len(lines):
                raise ToolError("rejection index out of range")
            ev = json.loads(lines[k])
            # the run it belongs to
            start = k
            while start > 0 and '"ev":"Reset"' not in lines[start]:
                start -= 1
            run = json.loads(lines[start]).get("run")
            end = k + 1
            while end < len(lines) and '"ev":"Reset"' not in lines[end]:
                end += 1
            ev_small = {a: b for a, b in ev.items() if a != "obs"}
            flagfail = (ev.get("obs") or {}).get("flagfail") if isinstance(ev.get("obs"), dict) else None
            rejections.append({
                "run": run, "event_index_in_run": k - start, "event": ev_small, "labels": rej["labels"],
                "flags": rej["flags"], "flagfail": flagfail, "items": rej["items"][:1500],
                "props": sorted(attribute(ev, rej["labels"], rej["flags"],
                                          after_crash=any('"ev":"Crash"' in x for x in lines[start:k + 1]))),
                "signature": signature(ev, rej["labels"], rej["flags"],
                                       [json.loads(x) for x in lines[start + 1:k]] if "fresh-id" in rej["labels"] else None),
                "schedule": scheds_by_run.get(run),
                "run_events": None if scheds_by_run.get(run) else
                [{a: b for a, b in json.loads(x).items() if a not in ("obs",)} for x in lines[start:k + 1]],
            })
            validated += k - start
            if rej["labels"] == ["flags"] and rej["flags"] and rounds < max_rounds - 2:
                # only coherence flags of the projection failed: the reference state is still the state of this run, so the rest
                # of it can be validated - with the failed flags silenced for this run (they would fail at every later call too)
                for j in range(start, end):
                    if any('"%s":false' % f in lines[j] for f in rej["flags"]):
                        e = json.loads(lines[j])
                        if isinstance(e.get("obs"), dict) and isinstance(e["obs"].get("flags"), dict):
                            for f in rej["flags"]:
                                if f in e["obs"]["flags"]:
                                    e["obs"]["flags"][f] = True
                            lines[j] = json.dumps(e, separators=(",", ":"))
                continue
            # drop this run entirely, keep the others
            lines = lines[:start] + lines[end:]
            if rounds >= max_rounds:
                log("[validate] too many rejections, stopping after %d rounds" % rounds)
                break
        try:
            os.remove(cur)
        except OSError:
            pass
    return rejections, validated, runs_ok, states


def run_corpus(pid, name, scheds, verdict, shards=8, light=False, net="regtest", traces="on"):
    """Play + validate; report rejections attributed to `pid` into verdict; returns coverage dict."""
    t0 = time.time()
    traces_p, sched_p, stats = play(name, scheds, shards=shards, light=light, net=net, traces=traces)
    by_run = {i + 1: s for i, s in enumerate(scheds)}
    kinds = {}
    for tp in traces_p:
        for line in open(tp):
            m = re.match(r'\{"err":"[^"]*","ev":"(\w+)"|.*?"ev":"(\w+)"', line)
            if m:
                k = m.group(1) or m.group(2)
                res = re.search(r'"res":"(\w+)"', line)
                key = "%s:%s" % (k, res.group(1) if res else "?")
                kinds[key] = kinds.get(key, 0) + 1
    t1 = time.time()
    rejs, validated, runs_ok, states = validate_traces(name, traces_p, by_run)
    t2 = time.time()
    other = []
    if pid == "C10":
        # C10 is differential too: a run that is rejected WITH its read requests (at whatever later call the damage surfaced) and
        # accepted WITHOUT them shows that a read changed state
        READS = ("ethcall", "estimate", "callmany", "getlogs")
        cand = [rj for rj in rejs if "C10" not in rj["props"] and rj.get("schedule") and any(st.get("op") in READS for st in rj["schedule"])]
        if cand:
            variants = [[st for st in rj["schedule"] if st.get("op") not in READS] for rj in cand[:12]]
            tp2, sp2, _ = play(name + "_noreads", variants, shards=min(shards, len(variants)), light=light, net=net, traces=traces)
            rej2, _, _, _ = validate_traces(name + "_noreads", tp2, {i + 1: vsched for i, vsched in enumerate(variants)})
            bad_runs = set(r["run"] for r in rej2)
            for i, rj in enumerate(cand[:12]):
                if (i + 1) not in bad_runs:
                    rj["props"] = sorted(set(rj["props"]) | {"C10"})
                    rj["signature"] = "read-observable:" + rj["signature"]
    if pid == "C03":
        # C03 is differential by nature: a run that is rejected WITH its commits but accepted WITHOUT them shows that the
        # commit placement is observable, whatever the event at which the difference surfaced
        # (only when no clear / restart precedes the rejected call: there the commit placement legitimately decides what survives)
        cand = [rj for rj in rejs if "C03" not in rj["props"] and rj.get("schedule") and any(st.get("op") == "commit" for st in rj["schedule"])
                and not any(st.get("op") in ("clear", "restart") for st in rj["schedule"][:max(0, int(rj.get("event_index_in_run") or 0) - 1)])]
        if cand:
            variants = [[st for st in rj["schedule"] if st.get("op") != "commit"] for rj in cand[:12]]
            tp2, sp2, _ = play(name + "_nocommit", variants, shards=min(shards, len(variants)), light=light, net=net, traces=traces)
            rej2, _, _, _ = validate_traces(name + "_nocommit", tp2, {i + 1: vsched for i, vsched in enumerate(variants)})
            bad_runs = set(r["run"] for r in rej2)
            for i, rj in enumerate(cand[:12]):
                if (i + 1) not in bad_runs:
                    rj["props"] = sorted(set(rj["props"]) | {"C03"})
                    rj["signature"] = "commit-observable:" + rj["signature"]
            for pth in tp2 + sp2:
                try:
                    os.remove(pth)
                except OSError:
                    pass
    for rj in rejs:
        if pid in rj["props"]:
            what = "%s rejected at %s (res=%s): %s %s" % (
                rj["signature"], rj["event"].get("ev"), rj["event"].get("res"), ",".join(rj["labels"]),
                (rj["flagfail"] or [""])[0] if rj["flags"] else "")
            verdict.report(rj["signature"], what, {"kind": "schedule", "schedule": rj["schedule"], "rejection": {
                k: rj[k] for k in ("event_index_in_run", "event", "labels", "flags", "flagfail", "items")}})
        else:
            other.append({"signature": rj["signature"], "props": rj["props"]})
    for p in traces_p + sched_p:
        try:
            os.remove(p)
        except OSError:
            pass
    return {"runs": stats["runs"], "events": stats["events"], "rpc_calls": stats["rpc_calls"],
            "events_by_kind": kinds, "events_validated": validated, "runs_fully_validated": runs_ok, "tlc_states": states,
            "rejections": len(rejs), "rejections_of_other_properties": other[:10],
            "play_s": round(t1 - t0, 1), "validate_s": round(t2 - t1, 1)}


def count_steps(scheds, pred):
    return sum(1 for s in scheds if any(pred(st) for st in s))


def replay_schedule(path):
    """./check Cxx --replay file: re-execute the schedule and re-validate it."""
    common.build_harness()
    obj = json.load(open(path))
    rp = obj["replay"]
    if rp.get("kind") != "schedule":
        print(json.dumps(obj, indent=1)[:4000])
        return 0
    traces_p, sched_p, stats = play("replay", [rp["schedule"]], shards=1)
    rejs, validated, runs_ok, _ = validate_traces("replay", traces_p, {1: rp["schedule"]})
    for rj in rejs:
        print("REJECTED %s at event %d: %s" % (rj["signature"], rj["event_index_in_run"], rj["labels"]))
        print(rj["items"][:1500])
    print("events validated: %d" % validated)
    return 1 if rejs else 0
