import histcheck, tracecheck


def run(tier, seed):
    return histcheck.run("C17", tier, seed)


def replay(path):
    return tracecheck.replay_schedule(path)
