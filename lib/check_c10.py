import histcheck, tracecheck


def run(tier, seed):
    return histcheck.run("C10", tier, seed)


def replay(path):
    return tracecheck.replay_schedule(path)
