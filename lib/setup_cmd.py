"""./check setup: cold build of the harness and a SANY pass over every specification module."""
import glob, os
import common


STUBS = {
    "LockPrograms.tla": '---- MODULE LockPrograms ----\n\\* placeholder; ./check C11 regenerates this from the lock events of the real handlers\n'
                        'Programs == << <<<<"AcqR", "db">>, <<"RelR", "db">>>> >>\n====\n',
    "RpcSchema.tla": '---- MODULE RpcSchema ----\n\\* placeholder; ./check C09 regenerates this from the real RPC method table\n'
                     'Schema == [eth_blockNumber |-> <<>>]\nClasses == [u64 |-> {"zero"}]\n====\n',
}


def run():
    for name, text in STUBS.items():
        path = os.path.join(common.SPEC, name)
        if not os.path.exists(path):
            open(path, "w").write(text)
    common.build_harness()
    bad = 0
    for path in sorted(glob.glob(os.path.join(common.SPEC, "*.tla"))):
        ok, out = common.sany(os.path.basename(path))
        if not ok:
            bad += 1
            common.log("[sany] FAILED %s\n%s" % (path, out[-2000:]))
        else:
            common.log("[sany] ok %s" % os.path.basename(path))
    return 0 if bad == 0 else 2
