"""./check setup: cold build of the harness and a SANY pass over every specification module."""
import glob, os
import common


def run():
    common.build_harness()
    bad = 0
    for path in sorted(glob.glob(os.path.join(common.SPEC, "*.tla"))):
        ok, out = common.sany(os.path.basename(path))
        if not ok:
            bad += 1
            common.log("[sany] FAILED %s\n%s" % (path, out[-2000:]))
        else:
            common.log("[sany] ok %s" % os.path.basename(path))
    return 0 if bad == 0 else 2
