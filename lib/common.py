"""Shared plumbing of the ./check driver: build, TLC, evidence, violations, known findings."""
import json, os, re, subprocess, sys, time, hashlib, shutil

ROOT = os.path.dirname(os.path.dirname(os.path.abspath(__file__)))
SPEC = os.path.join(ROOT, "spec")
OUT = os.path.join(ROOT, "out")
EVID = os.path.join(ROOT, "evidence")
HARNESS = os.path.join(ROOT, "harness")
VH = os.path.join(HARNESS, "target", "debug", "vh")
TLA_JAR = "/opt/veriftools/tla/tla2tools.jar"


class ToolError(Exception):
    pass


def log(*a):
    print(*a, file=sys.stderr, flush=True)


def ensure_dirs():
    for d in (OUT, EVID, os.path.join(OUT, "replay")):
        os.makedirs(d, exist_ok=True)


def cargo_env():
    env = dict(os.environ)
    env["CARGO_NET_OFFLINE"] = "true"
    env.pop("RUSTFLAGS", None)
    return env


_built = False


def build_harness():
    """(Re)build the harness, which recompiles /repo from its working tree with the hooks on."""
    global _built
    if _built:
        return VH
    t0 = time.time()
    lock_src = "/repo/Cargo.lock"
    lock_dst = os.path.join(HARNESS, "Cargo.lock")
    if not os.path.exists(lock_dst) and os.path.exists(lock_src):
        shutil.copy(lock_src, lock_dst)
    p = subprocess.run(["cargo", "build", "--offline"], cwd=HARNESS, env=cargo_env(),
                       stdout=subprocess.PIPE, stderr=subprocess.STDOUT, text=True)
    if p.returncode != 0:
        log(p.stdout[-6000:])
        raise ToolError("harness build failed")
    log("[build] harness up to date in %.1fs" % (time.time() - t0))
    _built = True
    return VH


def run_vh(args, timeout=3600, env=None, stdout=None, cwd=None, mem_gb=None):
    e = dict(os.environ)
    if env:
        e.update(env)

    def limit():
        if mem_gb:
            import resource
            resource.setrlimit(resource.RLIMIT_AS, (mem_gb << 30, mem_gb << 30))
    try:
        p = subprocess.run([VH] + [str(a) for a in args], env=e, timeout=timeout, cwd=cwd, preexec_fn=limit,
                           stdout=stdout or subprocess.PIPE, stderr=subprocess.PIPE, text=True)
    except subprocess.TimeoutExpired:
        raise ToolError("harness timed out: %s" % " ".join(map(str, args)))
    return p


TLC_NOISE = re.compile(r"^(Parsing file|Semantic processing|Linting of|Starting\.\.\.|$)")


def tlc(module, cfg, name, workers=8, timeout=1800, simulate=None, seed=None, env=None,
        stdout_path=None, xmx="8g", extra=None, deque=False, xss=None):
    """Run TLC; returns dict(rc, out, generated, distinct, depth, violated, ok)."""
    meta = os.path.join(OUT, "tlc", name)
    shutil.rmtree(meta, ignore_errors=True)
    os.makedirs(meta, exist_ok=True)
    jopts = ["-XX:+UseParallelGC", "-Xmx" + xmx]
    if xss:
        jopts.append("-Xss" + xss)
    if deque:
        jopts.append("-Dtlc2.tool.queue.IStateQueue=StateDeque")
    cmd = ["java"] + jopts + ["-cp", TLA_JAR + ":/opt/veriftools/tla/CommunityModules-deps.jar", "tlc2.TLC",
           "-workers", str(workers), "-metadir", meta, "-cleanup", "-noGenerateSpecTE",
           "-config", os.path.join(SPEC, cfg)]
    if simulate:
        cmd += ["-simulate", simulate]
    if seed is not None:
        cmd += ["-seed", str(seed)]
    if extra:
        cmd += extra
    cmd.append(os.path.join(SPEC, module))
    e = dict(os.environ)
    e.pop("JAVA_TOOL_OPTIONS", None)
    if env:
        e.update(env)
    t0 = time.time()
    try:
        if stdout_path:
            with open(stdout_path, "w") as f:
                p = subprocess.run(cmd, cwd=meta, env=e, stdout=f, stderr=subprocess.STDOUT, timeout=timeout)
            out = _grep_non_edge(stdout_path)
        else:
            p = subprocess.run(cmd, cwd=meta, env=e, stdout=subprocess.PIPE, stderr=subprocess.STDOUT,
                               timeout=timeout, text=True)
            out = p.stdout
    except subprocess.TimeoutExpired:
        raise ToolError("TLC timed out on %s/%s" % (module, cfg))
    res = parse_tlc(out)
    res["rc"] = p.returncode
    res["wall"] = time.time() - t0
    res["cmd"] = " ".join(cmd)
    shutil.rmtree(meta, ignore_errors=True)
    return res


def _grep_non_edge(path):
    keep = []
    with open(path, errors="replace") as f:
        for line in f:
            if line.startswith('<<"EDGE"') or line.startswith('<<"SCHED"') or line.startswith('<<"REPLAY"'):
                continue
            keep.append(line)
            if len(keep) > 20000:
                keep = keep[-10000:]
    return "".join(keep)


def parse_tlc(out):
    res = {"out": out, "generated": 0, "distinct": 0, "depth": 0, "violated": None, "ok": False,
           "deadlock": False, "error": None}
    m = re.findall(r"(\d+) states generated, (\d+) distinct states found", out)
    if m:
        res["generated"], res["distinct"] = int(m[-1][0]), int(m[-1][1])
    m = re.findall(r"The number of states generated: (\d+)", out)
    if m:
        res["generated"] = int(m[-1])
        res["distinct"] = max(res["distinct"], int(m[-1]))
    m = re.search(r"depth of the complete state graph search is (\d+)", out)
    if m:
        res["depth"] = int(m.group(1))
    m = re.search(r"Invariant (\S+) is violated", out)
    if m:
        res["violated"] = m.group(1)
    m = re.search(r"Action property (\S+) is violated|Temporal property (\S+) was violated|Temporal properties were violated", out)
    if m and not res["violated"]:
        res["violated"] = m.group(1) or m.group(2) or "temporal"
    if "Deadlock reached" in out:
        res["deadlock"] = True
        res["violated"] = res["violated"] or "Deadlock"
    if re.search(r"^Error: ", out, re.M) and not res["violated"] and not res["deadlock"]:
        m = re.search(r"^Error: (.*)$", out, re.M)
        res["error"] = m.group(1)
    res["ok"] = ("No error has been found" in out or "Finished in" in out) and not res["violated"] \
        and not res["error"] and "Error:" not in out
    return res


def tlc_tail(res, n=40):
    lines = [l for l in res["out"].splitlines() if not TLC_NOISE.match(l)]
    return "\n".join(lines[-n:])


def sany(module):
    p = subprocess.run(["java", "-cp", TLA_JAR + ":/opt/veriftools/tla/CommunityModules-deps.jar",
                        "tla2sany.SANY", os.path.join(SPEC, module)],
                       cwd=SPEC, stdout=subprocess.PIPE, stderr=subprocess.STDOUT, text=True)
    ok = p.returncode == 0 and "Semantic errors" not in p.stdout and "Parse Error" not in p.stdout \
        and "Fatal errors" not in p.stdout and "Could not" not in p.stdout
    return ok, p.stdout


def write_evidence(pid, tier, seed, level, coverage, assumptions, wall, violations):
    ensure_dirs()
    ev = {"property_id": pid, "tier": tier, "seed": int(seed), "level": level, "coverage": coverage,
          "assumptions": assumptions, "wall_s": round(wall, 2), "violations": int(violations)}
    path = os.path.join(EVID, pid + ".json")
    tmp = path + ".tmp"
    with open(tmp, "w") as f:
        json.dump(ev, f, indent=1, sort_keys=True)
    os.replace(tmp, path)
    return path


def load_known():
    path = os.path.join(ROOT, "known_findings.json")
    if not os.path.exists(path):
        return []
    with open(path) as f:
        return json.load(f).get("findings", [])


class Verdict:
    """Collects violations of one check run; separates listed known findings from new ones."""

    def __init__(self, pid):
        self.pid = pid
        self.known = [k for k in load_known() if k.get("property") == pid and k.get("status") == "open"]
        self.new = []          # (signature, what, replay object)
        self.known_hit = {}    # signature -> count

    def report(self, signature, what, replay):
        for k in self.known:
            if k["signature"] == signature:
                self.known_hit[signature] = self.known_hit.get(signature, 0) + 1
                return False
        self.new.append((signature, what, replay))
        return True

    def finish(self):
        for sig, n in sorted(self.known_hit.items()):
            k = [k for k in self.known if k["signature"] == sig][0]
            print("KNOWN-FINDING: property=%s %s [%s; seen %d time(s) in this run]" % (self.pid, k["what"], sig, n))
        if not self.new:
            return 0
        ensure_dirs()
        seen = set()
        for sig, what, replay in self.new:
            if sig in seen:
                continue
            seen.add(sig)
            h = hashlib.sha1((sig + json.dumps(replay, sort_keys=True, default=str)).encode()).hexdigest()[:10]
            path = os.path.join(OUT, "replay", "%s-%s.json" % (self.pid, h))
            with open(path, "w") as f:
                json.dump({"property": self.pid, "signature": sig, "what": what, "replay": replay}, f, indent=1,
                          default=str)
            print("VIOLATION property=%s replay=%s" % (self.pid, path))
            log("  signature: %s\n  what: %s" % (sig, what))
        return 1


def apalache(module, cinit, init, inv, length, name, timeout=1800):
    """apalache-mc check; returns dict(ok, violated, out, wall)."""
    out_dir = os.path.join(OUT, "apalache", name)
    shutil.rmtree(out_dir, ignore_errors=True)
    os.makedirs(out_dir, exist_ok=True)
    cmd = ["apalache-mc", "check", "--out-dir=" + out_dir, "--cinit=" + cinit, "--init=" + init, "--inv=" + inv, "--length=%d" % length,
           os.path.join(SPEC, module)]
    t0 = time.time()
    try:
        p = subprocess.run(cmd, cwd=out_dir, stdout=subprocess.PIPE, stderr=subprocess.STDOUT, text=True, timeout=timeout)
    except subprocess.TimeoutExpired:
        raise ToolError("apalache timed out on %s (%s)" % (module, name))
    out = p.stdout
    ok = "The outcome is: NoError" in out
    violated = "invariant" in out and "violated" in out
    shutil.rmtree(out_dir, ignore_errors=True)
    return {"ok": ok, "violated": violated, "out": out, "wall": time.time() - t0}
