"""C19 - contracts see exactly the block context the indexer supplied.
The Probe contract records NUMBER, TIMESTAMP, PREVRANDAO, CHAINID, BASEFEE, GASPRICE, COINBASE, CALLER, ORIGIN, five BLOCKHASH
look-backs and the answer of the current-txid helper; Brc20Ref.ProbeWrite says what each must be; regtest (Prague from 0)
and signet at low heights (Cancun: helper absent) run in separate processes."""
import json, os, time
import common, tracecheck
from common import Verdict


def run(tier, seed):
    t0 = time.time()
    common.build_harness()
    v = Verdict("C19")
    n = 24 if tier == "quick" else 300
    cov = {}
    states = trans = traces = 0
    samples = []
    # the third configuration starts 6 blocks below signet's Prague activation height and crosses it (Brc20Ref.Base)
    nfork = 8 if tier == "quick" else 64
    for net, cfg, prague, base, label, cnt in (("regtest", "TraceRef.cfg", 0, 0, "regtest", n), ("signet", "TraceRef_signet.cfg", 275000, 0, "signet", n),
                                               ("signet", "TraceRef_signet_fork.cfg", 275000, 274994, "signet_fork", nfork),
                                               # mainnet: Prague from 923 369; transaction ids are the signing hash below 929 000
                                               ("mainnet", "TraceRef_mainnet_prague.cfg", 923369, 923363, "mainnet_prague", nfork // 4),
                                               ("mainnet", "TraceRef_mainnet_rlp.cfg", 923369, 928994, "mainnet_rlp", nfork // 4)):
        ss, r = tracecheck.gen_schedules("c19_" + label, "probe", cnt, seed + (0 if net == "regtest" else 5) + (9 if base else 0), maxlen=42, prague=prague, base=base)
        import directed
        if not base:
            ss = directed.c19_family(tier) + ss
        else:
            ss = directed.c19_fork_family(base, tier) + ss
        tracecheck.VALIDATE_CFG[0] = cfg
        tracecheck.BASE[0] = base
        try:
            c = tracecheck.run_corpus("C19", "c19_" + label, ss, v, shards=4 if net == "mainnet" else 8, net=net, light=True)
        finally:
            tracecheck.VALIDATE_CFG[0] = "TraceRef.cfg"
            tracecheck.BASE[0] = 0
        cov[label] = c
        states += r["generated"] + c["tlc_states"]
        trans += c["events_validated"]
        traces += c["runs_fully_validated"]
        samples.append(ss[0][:10])
    probe_calls = sum(1 for net in cov for k, x in cov[net]["events_by_kind"].items() if k.startswith(("AddTx", "Transact")) for _ in range(x))
    out = {"states": max(1, states), "transitions": max(1, trans), "traces_validated_against_impl": traces, "samples": samples,
           "networks": cov, "tx_events": probe_calls,
           "checker_cmd": "tlc -simulate GenRef.tla (Focus probe) ; vh play <net> ; tlc TraceRef.tla (PragueFrom per network)"}
    rc = v.finish()
    common.write_evidence("C19", tier, seed, "model_checking", out,
                          ["activation heights are crossed from 6 blocks below: signet 275 000, mainnet 923 369 (Prague) and 929 000 (transaction-id regime)",
                           "that deposits/withdrawals carry a zero txid is unobservable (no user code runs in them); their sender is checked"],
                          time.time() - t0, len(v.new))
    return rc


def replay(path):
    return tracecheck.replay_schedule(path)
