"""SatLoc.tla: the transaction-graph helper contracts (0x..fc getLastSatLocation, 0x..fd getTxDetails) as a small-scope case
table enumerated by TLC; every case is one request to the real engine with client-supplied Bitcoin transactions.
Used by C09 (no case may panic, hang or wedge the engine) and by C02 (the answers are consensus-relevant: the current tree must
give the answers of the reference transcription)."""
import json, os
import common
from common import ToolError, OUT, SPEC


def run(tier):
    cfg = "_satloc.cfg"
    maxins = 2 if tier == "quick" else 3
    open(os.path.join(SPEC, cfg), "w").write(
        "SPECIFICATION Spec\nCONSTANTS\n  MaxIns = %d\n  OutVals = {0, 2, 5}\n  InVals = {0, 1, 3, 6}\n  Sats = {0, 1, 2, 3, 5, 6, 8}\n"
        "INVARIANTS Located Total\nCHECK_DEADLOCK FALSE\n" % maxins)
    r = common.tlc("SatLoc.tla", cfg, "satloc", workers=1, timeout=1200, xmx="6g", xss="256m")
    os.remove(os.path.join(SPEC, cfg))
    if r["violated"]:
        return {"model_violation": r["violated"], "tlc": common.tlc_tail(r, 40), "report": None, "model": r}
    if not r["ok"]:
        raise ToolError("TLC failed on SatLoc:\n" + common.tlc_tail(r))
    cases = []
    for line in r["out"].splitlines():
        if line.startswith('<<"CASE", '):
            cases.append(json.loads(json.loads(line.strip()[len('<<"CASE", '):-2])))
    if not cases:
        raise ToolError("SatLoc: no cases enumerated")
    cp = os.path.join(OUT, "satloc_cases.json")
    rp = os.path.join(OUT, "satloc_report.json")
    json.dump(cases, open(cp, "w"))
    p = common.run_vh(["satloc", cp, rp], timeout=3000, mem_gb=10)
    if p.returncode not in (0, 1) or not os.path.exists(rp):
        # the process died: that is a crash of the code under test unless the harness itself is broken
        return {"model_violation": None, "report": {"cases": len(cases), "requests": 0, "located": 0, "errors": 0, "samples": [],
                "violations": [{"kind": "process-abort", "fn": "?", "case": {}, "why": ["vh satloc died: exit %s %s" % (p.returncode, p.stderr[-300:])]}]},
                "model": r}
    return {"model_violation": None, "report": json.load(open(rp)), "model": r}


def signature(viol):
    c = viol.get("case", {})
    loc = c.get("loc", {})
    return "satloc:%s:%s:%s" % (viol["kind"], viol["fn"], "located" if loc.get("ok") else loc.get("why", "?"))
