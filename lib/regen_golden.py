"""Re-pin golden/digests.json from the current /repo tree.  Only to be run when the *harness* legitimately changed what the
corpus sends (e.g. the Cell runtime grew an op) - never to silence a difference produced by a change in /repo."""
import json, os, sys, datetime
sys.path.insert(0, os.path.dirname(os.path.abspath(__file__)))
import common, check_c02
common.ensure_dirs()
common.build_harness()
tmp = os.path.join(common.OUT, "golden_new.json")
p = common.run_vh(["golden", os.path.join(common.ROOT, "golden", "corpus.ndjson"), tmp])
assert p.returncode == 0, p.stderr[-800:]
pv, dbv = check_c02.versions()
path = os.path.join(common.ROOT, "golden", "digests.json")
old = json.load(open(path)) if os.path.exists(path) else {}
out = {"protocol_version": pv, "db_version": dbv,
       "produced_by": "tree at /repo HEAD (pinned commit + fix commits) on %s" % datetime.date.today().isoformat(),
       "digests": json.load(open(tmp)),
       "what": old.get("what", "sha256 chain over the normalised answers of the indexer calls of each schedule in golden/corpus.ndjson plus a final sweep")}
json.dump(out, open(path, "w"), indent=1, sort_keys=False)
print("pinned %d digests for protocol %s / db %s" % (len(out["digests"]), pv, dbv))
