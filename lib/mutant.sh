#!/bin/sh
# usage: mutant.sh <patch> <check ids...>   applies the patch to /repo, runs the checks, reverts
P=$1; shift
cd /repo && git apply "$P" || { echo "patch does not apply"; exit 2; }
cd /verif
for c in "$@"; do
  ./check $c > /tmp/mut_$c.log 2>&1; rc=$?
  echo "$c exit=$rc violations=$(grep -c '^VIOLATION' /tmp/mut_$c.log) sigs: $(grep 'signature:' /tmp/mut_$c.log | sed 's/.*signature: //' | sort | uniq -c | head -4 | tr '\n' ';')"
done
cd /repo && git checkout -- . && git status --short | head -2
