"""C04 - a crash at any write is recoverable by a reorg to a durable height.
Fault enumeration on the real code: for the last commit, reorg and finalise of each TLC-generated history the persistent
writes are counted (hook H2) and the history is replayed once per write with the fail-point armed before it; the instance is
dropped and reopened, an admissible reorg to a durable height is issued and three more blocks are appended; TraceRef.tla
(TrCrash / TrReopen / TrRecover) says what the state must be from the recovering reorg on."""
import concurrent.futures, json, os, time
import common, tracecheck
from common import Verdict, ToolError, OUT


def run(tier, seed):
    t0 = time.time()
    common.build_harness()
    v = Verdict("C04")
    nsched = 6 if tier == "quick" else 40
    maxpts = 60 if tier == "quick" else 400
    hard = 4 if tier == "quick" else 16       # crash points per operation at which a child process really dies (abort)
    scheds, r = tracecheck.gen_schedules("c04", "crash", nsched, seed, maxlen=36)
    import directed
    scheds = directed.c04_family(tier) + scheds
    shards = min(8, len(scheds)) if tier == "quick" else 12
    chunks = [scheds[i::shards] for i in range(shards)]

    def one(k):
        sp = os.path.join(OUT, "c04_sched_%d.ndjson" % k)
        tp = os.path.join(OUT, "c04_trace_%d.ndjson" % k)
        tracecheck.write_schedules(sp, chunks[k], first_run=1 + 1000 * k)
        p = common.run_vh(["crash", sp, tp, maxpts, hard], timeout=3400)
        if p.returncode != 0:
            raise ToolError("vh crash failed: " + p.stderr[-1500:])
        return tp, json.loads(p.stdout.strip().splitlines()[-1])

    traces = []
    tot = {"runs": 0, "crash_points": 0, "skipped": 0, "hard_kills": 0}
    orders = []
    with concurrent.futures.ThreadPoolExecutor(max_workers=shards) as ex:
        for tp, st in ex.map(one, range(shards)):
            traces.append(tp)
            for k in tot:
                tot[k] += st[k]
            orders += st["orders"]
    rejs, validated, runs_ok, states = tracecheck.validate_traces("c04", traces, {})
    by_during = {}
    for rj in rejs:
        e = rj["event"]
        sig = "crash:%s:%s" % (e.get("ev"), "+".join(sorted(rj["labels"])))
        v.report(sig, "%s at event %s: %s %s" % (sig, json.dumps(e)[:200], rj["labels"], (rj.get("flagfail") or [""])[:1]),
                 {"kind": "crash", "rejection": {k: rj[k] for k in ("event_index_in_run", "event", "labels", "flags", "flagfail", "items", "run_events")}})
    for tp in traces:
        for line in open(tp):
            if '"ev":"Crash"' in line:
                d = json.loads(line)
                by_during[d["during"]] = by_during.get(d["during"], 0) + 1
        os.remove(tp)
    # the write order of the real code, extracted for the mechanism model (DESIGN 3.3)
    row_order = sorted(set(tuple(w[1] for w in o["writes"] if w[1] in ("hist", "latest"))[:2] for o in orders if o["writes"]))
    table_order = []
    for o in orders:
        if o["op"] == "commit":
            seen = []
            for w in o["writes"]:
                if w[0] not in seen:
                    seen.append(w[0])
            table_order = seen
            break
    cov = {"evaluations": tot["crash_points"], "distinct_nontrivial": max(2, tot["runs"]),
           "rule": "one run per (history, operation, persistent-write ordinal): the fail-point makes the operation stop before that "
                   "write, the instance is dropped and reopened, reorg to the highest admissible durable height, three more "
                   "blocks; non-trivial = a run whose crash point lies strictly inside the operation or at its first write",
           "samples": [{"operation": o["op"], "writes": o["writes"][:12], "n_writes": len(o["writes"])} for o in orders[:3]],
           "crash_points_by_operation": by_during, "hard_kills": tot["hard_kills"], "runs_validated": runs_ok, "events_validated": validated,
           "skipped_no_admissible_target": tot["skipped"], "histories": len(scheds),
           "write_order_extracted": {"rows_within_key": [list(x) for x in row_order], "tables_in_commit": table_order},
           "tlc_states": states,
           "checker_cmd": "tlc -simulate GenRef.tla (Focus crash) ; vh crash (fail-point before every write) ; tlc TraceRef.tla"}
    rc = v.finish()
    common.write_evidence("C04", tier, seed, "fault_enumeration", cov,
                          ["a completed RocksDB put/delete survives process death and is atomic (WAL); power loss is out of scope",
                           "most crash points are an Err returned by the hook at the armed write followed by dropping the instance (RocksDB is closed "
                           "in an orderly way); at a few points per operation (hard_kills) a child process aborts inside the write and the directory "
                           "is reopened as the kernel left it",
                           "quick tier samples at most 60 crash points per operation, evenly spaced, always including the first and last"],
                          time.time() - t0, len(v.new))
    return rc


def replay(path):
    print(open(path).read()[:6000])
    return 0
