"""C18 - eth_getLogs returns exactly the matching logs, in chain order.
Chains with 0-4 topic logs from two contracts (uncommitted / committed / mixed) come from GenRef.tla; every filter shape
(LogFilters.tla, enumerated by TLC) is asked of the real engine and TraceRef.tla checks result = the reference answer."""
import json, os, time
import common, tracecheck, gates
from common import Verdict, ToolError, OUT


def run(tier, seed):
    t0 = time.time()
    common.build_harness()
    v = Verdict("C18")
    mt = 2 if tier == "quick" else 3
    cfg = "SPECIFICATION Spec\nCONSTANTS\n  Vals = {1, 2}\n  MaxTopics = %d\nCHECK_DEADLOCK FALSE\n" % mt
    filters, fr = gates.tlc_cases("LogFilters.tla", cfg, "logfilters", None)
    if not filters:
        raise ToolError("no filters enumerated:\n" + common.tlc_tail(fr))
    # a few deeper shapes also in the quick tier
    extra = [{"addr": "A", "topics": [{"k": "any", "v": []}, {"k": "one", "v": [2]}, {"k": "alt", "v": [1, 2]}, {"k": "one", "v": [1]}], "fb": 5, "tb": 0},
             {"addr": "NULL", "topics": [{"k": "one", "v": [1]}, {"k": "any", "v": []}, {"k": "any", "v": []}, {"k": "any", "v": []}], "fb": 5, "tb": 0},
             {"addr": "B", "topics": [{"k": "alt", "v": [2, 1]}, {"k": "one", "v": [2]}, {"k": "one", "v": [2]}], "fb": 4, "tb": 1}]
    fsteps = [dict(op="getlogs", **f) for f in filters + extra]
    chains = []
    gen_states = 0
    nchain = 1 if tier == "quick" else 12
    for k in range(nchain):
        for focus in ("logsnc", "logs"):   # never committed / commits at random points (committed + mixed)
            ss, r = tracecheck.gen_schedules("c18_%s%d" % (focus, k), focus, 1, seed + 17 * k, maxlen=48)
            gen_states += r["generated"]
            chains += ss
    # a fully committed variant of the first chain
    chains.append(chains[0] + [{"op": "commit"}])
    scheds = [c + fsteps for c in chains]
    cov = tracecheck.run_corpus("C18", "c18", scheds, v, shards=min(8, len(scheds)), light=False)
    n_getlogs = cov["events_by_kind"].get("GetLogs:ok", 0)
    out = {"states": max(1, fr["distinct"] + gen_states + cov["tlc_states"]),
           "transitions": max(1, fr["generated"] + cov["events_validated"]),
           "traces_validated_against_impl": cov["runs_fully_validated"],
           "samples": [fsteps[7], fsteps[len(fsteps) // 2], fsteps[-1]],
           "filters_per_chain": len(fsteps), "chains": len(scheds), "getlogs_requests": n_getlogs,
           "exhaustive": True, "corpus": cov,
           "explanation": "every filter shape over address {none,A,B,other} x topic arrays of length 0..%d over {null, single, "
                          "alternatives} x 10 range forms, on chains never committed / committed at random points / fully "
                          "committed" % mt,
           "checker_cmd": "tlc LogFilters.tla ; tlc -simulate GenRef.tla (Focus logs) ; vh play ; tlc TraceRef.tla"}
    rc = v.finish()
    common.write_evidence("C18", tier, seed, "model_checking", out,
                          ["topic alphabet {1,2,3} in the logs, {1,2} in the filters", "null inside an alternatives list and a null "
                           "beyond a log's topic count are 'either' cases"], time.time() - t0, len(v.new))
    return rc


def replay(path):
    return tracecheck.replay_schedule(path)
